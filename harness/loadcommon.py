# -*- coding: utf-8 -*-
"""Shared parts of the load-layer checks C04 and C05 (model lean/OdfModel/LoadSax.lean, driver drv_load).

  * read_pkg / parse_manifest    - a package as zipfile + expat see it (no odfpy code)
  * part sections                - office:body, office:styles, ... cut out of an independently parsed part
  * diff                         - first-class list of differences between two tree descriptions
  * style reference closure      - which automatic styles of a part are referenced (schema list of reference
                                   attributes read from the .rng by translate_styles.schema_style_refs)
  * serialise                    - the harness' OWN XML writer (foreign packages, mutants): prefixes, default
                                   namespace, declaration separators are parameters
  * record_events / wire_events  - real SAX event streams (xml.sax + recording handler) and their wire form
  * loadparser_sections          - what the real LoadParser built, read through qname/attributes/childNodes/data

tree description = xmlcorr's: ('E', ns, local, [(ans, alocal, value)], [kids]) | ('T', data) | ('C', data)
"""
import io, os, re, zipfile, warnings
import xml.parsers.expat
import xml.sax, xml.sax.handler
import common
from common import enc_str, dec_str
import xmlcorr as X

OFFICENS = u'urn:oasis:names:tc:opendocument:xmlns:office:1.0'
STYLENS = u'urn:oasis:names:tc:opendocument:xmlns:style:1.0'
TEXTNS = u'urn:oasis:names:tc:opendocument:xmlns:text:1.0'
DRAWNS = u'urn:oasis:names:tc:opendocument:xmlns:drawing:1.0'
METANS = u'urn:oasis:names:tc:opendocument:xmlns:meta:1.0'
CONFIGNS = u'urn:oasis:names:tc:opendocument:xmlns:config:1.0'
TABLENS = u'urn:oasis:names:tc:opendocument:xmlns:table:1.0'
SVGNS = u'urn:oasis:names:tc:opendocument:xmlns:svg-compatible:1.0'
FONS = u'urn:oasis:names:tc:opendocument:xmlns:xsl-fo-compatible:1.0'
DCNS = u'http://purl.org/dc/elements/1.1/'
XLINKNS = u'http://www.w3.org/1999/xlink'
MANIFESTNS = u'urn:oasis:names:tc:opendocument:xmlns:manifest:1.0'
XMLNS = u'http://www.w3.org/XML/1998/namespace'
SIGNATURES = u'META-INF/documentsignatures.xml'
PARTS = (u'content.xml', u'styles.xml', u'meta.xml', u'settings.xml')
TRIGGERS = ('automatic-styles', 'body', 'font-face-decls', 'master-styles', 'meta', 'scripts', 'settings', 'styles')


# ------------------------------------------------------------------------------------------- packages
class Pkg(object):
    """names: member names in archive order (duplicates kept); data[name]: bytes of the LAST member of that name (what
    every zip reader resolves a name to); manifest: [(full-path, media-type|None)] in document order; mimetype: bytes|None"""
    pass


def parse_manifest(data):
    out = []
    p = xml.parsers.expat.ParserCreate(namespace_separator=' ')
    def st(name, attrs):
        if name == MANIFESTNS + ' file-entry':
            out.append((attrs.get(MANIFESTNS + ' full-path'), attrs.get(MANIFESTNS + ' media-type')))
    p.StartElementHandler = st
    p.Parse(data, True)
    return out


def read_pkg(raw):
    a = Pkg()
    a.raw = raw
    z = zipfile.ZipFile(io.BytesIO(raw))
    a.names = []
    a.data = {}
    for zi in z.infolist():
        a.names.append(zi.filename)
        with z.open(zi) as f:
            a.data[zi.filename] = f.read()
    z.close()
    a.mimetype = a.data.get('mimetype')
    a.manifest = parse_manifest(a.data['META-INF/manifest.xml']) if 'META-INF/manifest.xml' in a.data else []
    a.mdict = {}
    for p, mt in a.manifest:
        a.mdict.setdefault(p, []).append(mt)
    return a


def manifest_xml(entries, version=u'1.2'):
    s = [u'<?xml version="1.0" encoding="UTF-8"?>\n<manifest:manifest xmlns:manifest="%s"%s>'
         % (MANIFESTNS, (u' manifest:version="%s"' % version) if version else u'')]
    for p, t in entries:
        s.append(u' <manifest:file-entry manifest:full-path=%s%s/>'
                 % (attr_quote(p), u'' if t is None else u' manifest:media-type=' + attr_quote(t)))
    s.append(u'</manifest:manifest>')
    return u'\n'.join(s).encode('utf-8')


def write_pkg(mimetype, manifest, members, compress=zipfile.ZIP_DEFLATED):
    """zip bytes: `mimetype` (str|None) first and stored, then the members in the order given, then the manifest"""
    buf = io.BytesIO()
    z = zipfile.ZipFile(buf, 'w')
    if mimetype is not None:
        z.writestr(zipfile.ZipInfo('mimetype'), mimetype.encode('utf-8'))
    with warnings.catch_warnings():
        warnings.simplefilter('ignore')
        for n, b in members:
            zi = zipfile.ZipInfo(n); zi.compress_type = compress
            z.writestr(zi, b)
        zi = zipfile.ZipInfo('META-INF/manifest.xml'); zi.compress_type = compress
        z.writestr(zi, manifest_xml(manifest))
    z.close()
    return buf.getvalue()


# ------------------------------------------------------------------------------------------- trees
def parse_xml(data):
    """bytes -> tree description (expat; namespace-resolved; adjacent character data merged)"""
    return X.expat_parse(data)


def kid(t, ns, local):
    for k in t[4]:
        if k[0] == 'E' and k[1] == ns and k[2] == local:
            return k
    return None


def kids_named(t, ns, local):
    return [k for k in t[4] if k[0] == 'E' and k[1] == ns and k[2] == local]


def elems(t):
    """every element of a tree, document order"""
    if t[0] != 'E':
        return
    yield t
    for k in t[4]:
        for e in elems(k):
            yield e


def attr(t, ns, local, default=None):
    for a in t[3]:
        if a[0] == ns and a[1] == local:
            return a[2]
    return default


def merge_text(kids):
    """adjacent character data merged, CDATA as text, empty dropped (what any parser delivers)"""
    out = []
    for k in kids:
        if k[0] in 'TC':
            if k[1] == u'':
                continue
            if out and out[-1][0] == 'T':
                out[-1] = ('T', out[-1][1] + k[1])
            else:
                out.append(('T', k[1]))
        else:
            out.append(k)
    return out


def norm(t):
    """sorted attributes, merged text, recursively"""
    if t[0] != 'E':
        return ('T', t[1])
    return ('E', t[1], t[2], sorted(t[3]), merge_text([norm(k) for k in t[4]]))


def without(t, ns, local):
    """the element with its direct children named (ns, local) removed (and the text around them merged)"""
    return ('E', t[1], t[2], t[3], merge_text([k for k in t[4] if not (k[0] == 'E' and k[1] == ns and k[2] == local)]))


def short(t, n=70):
    if t is None:
        return 'None'
    if t[0] != 'E':
        return 'T%r' % (t[1][:n],)
    return '<%s>' % t[2]


def diff(a, b, path=u'', out=None, limit=40):
    """differences between two NORMALISED descriptions: list of dicts
       {'path', 'kind': 'node'|'name'|'attr'|'text'|'children', ...}"""
    if out is None:
        out = []
    if len(out) >= limit:
        return out
    if a[0] != b[0]:
        out.append({'path': path, 'kind': 'node', 'a': short(a), 'b': short(b)})
        return out
    if a[0] != 'E':
        if a[1] != b[1]:
            out.append({'path': path, 'kind': 'text', 'a': a[1], 'b': b[1]})
        return out
    here = u'%s/%s' % (path, a[2])
    if (a[1], a[2]) != (b[1], b[2]):
        out.append({'path': path, 'kind': 'name', 'a': [a[1], a[2]], 'b': [b[1], b[2]]})
        return out
    if a[3] != b[3]:
        da = dict(((x[0], x[1]), x[2]) for x in a[3]); db = dict(((x[0], x[1]), x[2]) for x in b[3])
        for k in sorted(set(da) | set(db)):
            if da.get(k) != db.get(k):
                out.append({'path': here, 'kind': 'attr', 'elem': [a[1], a[2]], 'attr': list(k), 'a': da.get(k), 'b': db.get(k)})
    if len(a[4]) != len(b[4]) or any(x[0] != y[0] for x, y in zip(a[4], b[4])):
        out.append({'path': here, 'kind': 'children', 'elem': [a[1], a[2]], 'a': [short(k, 20) for k in a[4]][:12],
                    'b': [short(k, 20) for k in b[4]][:12], 'na': len(a[4]), 'nb': len(b[4])})
        return out
    for i, (x, y) in enumerate(zip(a[4], b[4])):
        diff(x, y, u'%s[%d]' % (here, i), out, limit)
    return out


# ------------------------------------------------------------------------------------------- parts of a package
class Sections(object):
    """the sections of one (sub-)document of a package, each an element description or None"""
    pass


def sections_of(pkg, folder=u''):
    s = Sections()
    s.errors = {}
    s.roots = {}
    for part in PARTS:
        b = pkg.data.get(folder + part)
        if b is None:
            continue
        try:
            s.roots[part] = parse_xml(b)
        except xml.parsers.expat.ExpatError as e:
            s.errors[part] = str(e)
    def sec(part, local):
        r = s.roots.get(part)
        return None if r is None else kid(r, OFFICENS, local)
    s.body = sec(u'content.xml', 'body')
    s.scripts = sec(u'content.xml', 'scripts')
    s.content_auto = sec(u'content.xml', 'automatic-styles')
    s.content_fonts = sec(u'content.xml', 'font-face-decls')
    s.styles = sec(u'styles.xml', 'styles')
    s.master = sec(u'styles.xml', 'master-styles')
    s.styles_auto = sec(u'styles.xml', 'automatic-styles')
    s.styles_fonts = sec(u'styles.xml', 'font-face-decls')
    s.settings = sec(u'settings.xml', 'settings')
    s.meta = sec(u'meta.xml', 'meta')
    return s


# ------------------------------------------------------------------------------------------- style references
_REFS = {}


def ref_attrs():
    """{(ns, local): 'styleNameRef'|'styleNameRefs'} from the shipped ODF 1.2 schema (+ style:list-style-name)"""
    if not _REFS:
        import translate_styles
        t = translate_styles.schema_style_refs(os.path.join(common.REPO, translate_styles.SCHEMA))
        for (ns, p, l), kinds in t.items():
            _REFS[(ns, l)] = 'styleNameRefs' if 'styleNameRefs' in kinds else 'styleNameRef'
        _REFS[(STYLENS, 'list-style-name')] = 'styleNameRef'
    return _REFS


def refs_in(t, acc):
    R = ref_attrs()
    for e in elems(t):
        for (ans, al, v) in e[3]:
            k = R.get((ans, al))
            if k == 'styleNameRefs':
                acc.update(re.split(u'[ \t\r\n]+', v.strip(u' \t\r\n')) if v.strip(u' \t\r\n') else [])
            elif k and v != u'':
                acc.add(v)
    return acc


def style_name(e):
    return attr(e, STYLENS, 'name')


def referenced_auto(auto, roots):
    """the children of the automatic-styles element `auto` reachable from the elements `roots` through style
    references (by name, transitively through other automatic styles of the same part)"""
    if auto is None:
        return []
    names = set()
    for r in roots:
        if r is not None:
            refs_in(r, names)
    styles = [k for k in auto[4] if k[0] == 'E']
    used = []; seen = set()
    grown = True
    while grown:
        grown = False
        for i, s in enumerate(styles):
            if i not in seen and style_name(s) is not None and style_name(s) in names:
                seen.add(i); grown = True
                refs_in(s, names)
    return [s for i, s in enumerate(styles) if i in seen]


# ------------------------------------------------------------------------------------------- the harness' own XML writer
def text_quote(s):
    return s.replace(u'&', u'&amp;').replace(u'<', u'&lt;').replace(u'>', u'&gt;').replace(u'\r', u'&#13;')


def attr_quote(s):
    s = s.replace(u'&', u'&amp;').replace(u'<', u'&lt;').replace(u'"', u'&quot;')
    s = s.replace(u'\t', u'&#9;').replace(u'\n', u'&#10;').replace(u'\r', u'&#13;')
    return u'"' + s + u'"'


def namespaces_of(t, acc=None):
    """namespaces used by element and attribute names, in first-use order"""
    if acc is None:
        acc = []
    for e in elems(t):
        for ns in [e[1]] + [a[0] for a in e[3]]:
            if ns and ns not in acc:
                acc.append(ns)
    return acc


def serialise(t, prefixes, default_ns=None, seps=None, extra_decls=(), decl_order=None, prolog=True, root_extra=u'', root_first=u'', eq=u'='):
    """tree description -> bytes.
    prefixes: {namespace: prefix} for every namespace in the tree (xml namespace implied);
    default_ns: elements of this namespace are written without prefix (xmlns="..." on the root);
    seps: list of separator strings placed before each declaration on the root (cycled; default ' ');
    extra_decls: [(prefix, namespace)] declared on the root although unused."""
    decls = []
    used = namespaces_of(t)
    order = decl_order if decl_order is not None else used
    for ns in order:
        if ns == XMLNS or ns not in used:
            continue
        if ns == default_ns:
            decls.append((u'xmlns', ns))
            # attributes of the default namespace still need a prefix
            if any(a[0] == ns for e in elems(t) for a in e[3]):
                decls.append((u'xmlns:' + prefixes[ns], ns))
        else:
            decls.append((u'xmlns:' + prefixes[ns], ns))
    for ns in used:
        if ns != XMLNS and ns not in order:
            decls.append((u'xmlns:' + prefixes[ns], ns))
    for p, ns in extra_decls:
        if (u'xmlns:' + p, ns) not in decls and not any(d[0] == u'xmlns:' + p for d in decls):
            decls.append((u'xmlns:' + p, ns))
    seps = seps or [u' ']
    out = []
    def qn(ns, local, is_attr):
        if not ns:
            return local
        if ns == XMLNS:
            return u'xml:' + local
        if ns == default_ns and not is_attr:
            return local
        return prefixes[ns] + u':' + local
    def w(n, root):
        if n[0] == 'T':
            out.append(text_quote(n[1])); return
        if n[0] == 'C':
            out.append(u'<![CDATA[' + n[1] + u']]>'); return
        tag = qn(n[1], n[2], False)
        out.append(u'<' + tag)
        if root:
            out.append(root_first)
            for i, (dn, ns) in enumerate(decls):
                out.append(seps[i % len(seps)] + dn + eq + attr_quote(ns))
            out.append(root_extra)
        for (ans, al, v) in n[3]:
            out.append(u' ' + qn(ans, al, True) + (eq if root else u'=') + attr_quote(v))
        if n[4]:
            out.append(u'>')
            for k in n[4]:
                w(k, False)
            out.append(u'</' + tag + u'>')
        else:
            out.append(u'/>')
    w(t, True)
    s = u''.join(out)
    if prolog:
        s = u'<?xml version="1.0" encoding="UTF-8"?>\n' + s
    return s.encode('utf-8')


def prefix_map(data):
    """[(prefix, namespace)] in declaration order, first binding of a prefix wins ('' = default namespace)"""
    out = []; seen = set()
    p = xml.parsers.expat.ParserCreate(namespace_separator=X.SEP)
    def ns(prefix, uri):
        prefix = prefix or u''
        if prefix not in seen:
            seen.add(prefix); out.append((prefix, uri))
    p.StartNamespaceDeclHandler = ns
    p.Parse(data, True)
    return out


# ------------------------------------------------------------------------------------------- SAX recording
class Recorder(xml.sax.handler.ContentHandler):
    def __init__(self):
        self.events = []
    def startElementNS(self, name, qname, attrs):
        self.events.append(('S', name[0] or u'', name[1], [((k[0] or u''), k[1], v) for k, v in attrs.items()]))
    def endElementNS(self, name, qname):
        self.events.append(('E', name[0] or u'', name[1]))
    def characters(self, data):
        self.events.append(('C', data))


def record_events(data):
    """bytes -> the SAX event stream xml.sax (expat, namespaces on) delivers, chunking of character data as delivered"""
    p = xml.sax.make_parser()
    p.setFeature(xml.sax.handler.feature_namespaces, 1)
    p.setFeature(xml.sax.handler.feature_external_ges, 0)
    r = Recorder()
    p.setContentHandler(r)
    src = xml.sax.xmlreader.InputSource()
    src.setByteStream(io.BytesIO(data))
    p.parse(src)
    return r.events


def wire_event(ev):
    if ev[0] == 'S':
        t = ['S', enc_str(ev[1]), enc_str(ev[2]), str(len(ev[3]))]
        for a in ev[3]:
            t += [enc_str(a[0]), enc_str(a[1]), enc_str(a[2])]
        return ' '.join(t)
    if ev[0] == 'E':
        return 'E %s %s' % (enc_str(ev[1]), enc_str(ev[2]))
    return 'C ' + enc_str(ev[1])


def events_of_tree(t, rng=None, out=None):
    """the event stream of a tree description; with an rng, character data is cut into random chunks
    (possibly empty ones)"""
    if out is None:
        out = []
    if t[0] in 'TC':
        s = t[1]
        if rng is None:
            out.append(('C', s))
        else:
            while True:
                if rng.random() < 0.15:
                    out.append(('C', u''))
                if not s:
                    break
                n = rng.randint(1, len(s))
                out.append(('C', s[:n])); s = s[n:]
        return out
    out.append(('S', t[1], t[2], list(t[3])))
    for k in t[4]:
        events_of_tree(k, rng, out)
    out.append(('E', t[1], t[2]))
    return out


SECTION_ORDER = ['meta', 'scripts', 'font-face-decls', 'settings', 'styles', 'automatic-styles', 'master-styles', 'body']


def unwire_sections(answer):
    """driver answer `ok (<name> <k> (ns local value)^k <n> <tree>^n)*` -> {section: [trees], '@'+section: [attrs]}"""
    toks = answer.split()
    assert toks[0] == 'ok', answer[:200]
    toks = toks[1:]
    out = {}
    while toks:
        name = toks.pop(0)
        k = int(toks.pop(0))
        out['@' + name] = [(dec_str(toks.pop(0)), dec_str(toks.pop(0)), dec_str(toks.pop(0))) for _ in range(k)]
        n = int(toks.pop(0))
        out[name] = [X.unwire_tree(toks) for _ in range(n)]
    return out


def loaded_sections(doc):
    """the eight sections of a real document: children as descriptions (qname/attributes/childNodes/data) under the
    section name, the attributes of the section object itself under '@' + name"""
    m = {'meta': doc.meta, 'scripts': doc.scripts, 'font-face-decls': doc.fontfacedecls, 'settings': doc.settings,
         'styles': doc.styles, 'automatic-styles': doc.automaticstyles, 'master-styles': doc.masterstyles, 'body': doc.body}
    out = dict((k, [X.walk(c) for c in v.childNodes]) for k, v in m.items())
    for k, v in m.items():
        out['@' + k] = [((a[0] or u''), a[1], u'%s' % val) for a, val in v.attributes.items()]
    return out


# ------------------------------------------------------------------------------------------- correspondence with drv_load
def real_fix(text):
    """the real __fixXmlPart (module-level name with two leading underscores)"""
    import odf.opendocument
    return odf.opendocument.__dict__['__fixXmlPart'](text)


def record_events_safe(data):
    """(events delivered before a parse error, error text | None)"""
    p = xml.sax.make_parser()
    p.setFeature(xml.sax.handler.feature_namespaces, 1)
    p.setFeature(xml.sax.handler.feature_external_ges, 0)
    r = Recorder()
    p.setContentHandler(r)
    src = xml.sax.xmlreader.InputSource()
    src.setByteStream(io.BytesIO(data))
    try:
        p.parse(src)
    except xml.sax.SAXParseException as e:
        return r.events, str(e)
    return r.events, None


_CONV = {}


def convert_events(events):
    """attribute values as Element.setAttrNS stores them: through the real AttrConverters.convert (C15's subject, a
    parameter of the load model).  Raises what the converter raises."""
    from odf.attrconverters import AttrConverters
    from odf.element import Element
    c = AttrConverters()
    out = []
    for ev in events:
        if ev[0] == 'S' and ev[3]:
            q = (ev[1], ev[2])
            el = _CONV.get(q)
            if el is None:
                el = _CONV[q] = Element(qname=(ev[1] if ev[1] else None, ev[2]), check_grammar=False)
            at = []
            for (ans, al, v) in ev[3]:
                at.append((ans, al, u'%s' % (c.convert((ans if ans else None, al), v, el),)))
            out.append(('S', ev[1], ev[2], at))
        else:
            out.append(ev)
    return out


def parts_of_document(pkg, folder=u''):
    """[(member name, bytes)] in the order __loadxmlparts reads them"""
    out = []
    for part in (u'settings.xml', u'meta.xml', u'content.xml', u'styles.xml'):
        n = folder + part
        if n in pkg.mdict and n in pkg.data:
            out.append((n, pkg.data[n]))
    return out


def model_lines(parts_events):
    lines = ['new']
    for name, evs in parts_events:
        lines.append('part ' + enc_str(name))
        lines.extend(wire_event(e) for e in evs)
        lines.append('endpart')
    lines.append('dump')
    return lines


def model_sections(drv, parts_events):
    """run the model on the event streams of the parts of one document -> ({section: [trees]}, crashed?)"""
    ans = drv.batch(model_lines(parts_events))
    crashed = any(a.startswith('err') for a in ans[:-1])
    return unwire_sections(ans[-1]), crashed, [a for a in ans[:-1] if a != 'ok'][:3]


def rechunk(events, rng):
    """the same stream with the character data cut differently (merged, split, empty chunks)"""
    out = []
    buf = None
    def emit(s):
        while True:
            if rng.random() < 0.1:
                out.append(('C', u''))
            if not s:
                break
            n = rng.randint(1, len(s))
            out.append(('C', s[:n])); s = s[n:]
    for ev in events:
        if ev[0] == 'C':
            buf = (buf or u'') + ev[1]
        else:
            if buf is not None:
                emit(buf); buf = None
            out.append(ev)
    if buf is not None:
        emit(buf)
    return out


def tree_eq(a, b):
    """a == b for tree descriptions, without the interpreter's C-level recursion (the built-in comparison of tuples
    nested some 1500 levels deep - a list nested 380 times - raises RecursionError whatever sys.setrecursionlimit says)"""
    stack = [(a, b)]
    while stack:
        x, y = stack.pop()
        if isinstance(x, (list, tuple)) and isinstance(y, (list, tuple)):
            if type(x) != type(y) or len(x) != len(y):
                return False
            stack.extend(zip(x, y))
        elif x != y:
            return False
    return True


def correspond_document(chk, drv, pkg, folder, real, case, rng=None):
    """model vs real LoadParser for one (sub-)document of a package: the sections after all parts were read.
    `real` = loaded_sections(document), taken right after load() (a later save() moves the generator)"""
    pe = []
    for name, data in parts_of_document(pkg, folder):
        text = data.decode('utf-8')
        evs, err = record_events_safe(real_fix(text).encode('utf-8'))
        try:
            evs = convert_events(evs)
        except Exception as e:      # the real load() raises the same (no document to compare with)
            return 'converter raises: %s' % e
        if rng is not None:
            evs = rechunk(evs, rng)
        pe.append((name, evs))
    model, crashed, errs = model_sections(drv, pe)
    chk.corr()
    chk.count('corr_events', sum(len(e) for _, e in pe))
    if crashed:
        chk.corr_diff(case, 'loaded without exception', 'model: ' + ' '.join(errs), 'LoadParser model crashed on %r' % folder)
        return 'crash'
    for sec in SECTION_ORDER:
        if model.get('@' + sec) != real.get('@' + sec):
            chk.corr_diff(case, repr(real.get('@' + sec))[:300], repr(model.get('@' + sec))[:300],
                          'attributes of the section object %s of %r after load (real vs model)' % (sec, folder or '/'))
            return 'diff'
        if not tree_eq(model.get(sec), real.get(sec)):
            a = ('E', u'', sec, [], real.get(sec) or []); b = ('E', u'', sec, [], model.get(sec) or [])
            d = diff(a, b)[:1] or [X.first_diff(a, b)]
            chk.corr_diff(case, repr(d)[:400], 'model differs', 'section %s of %r after load (real vs model)' % (sec, folder or '/'))
            return 'diff'
    return None


def correspond_pyspace(chk, drv):
    """the model's table of Python's \\s against the real `re` on EVERY code point"""
    import re
    rx = re.compile(u'\\s')
    real = ['%x' % c for c in range(0x110000) if rx.match(chr(c))]
    ans = drv.ask('spaces')
    chk.corr(0x110000)
    if ans != 'ok ' + ' '.join(real):
        chk.corr_diff({'table': 'isPySpace'}, ' '.join(real), ans, 'code points matched by \\s (re, str pattern)')


# ------------------------------------------------------------------------------------------- big non-ASCII parts (C04, C17)
# "for all documents / for every string" includes parts larger than any buffer a reader or writer may cut them into: text of
# 2-, 3- and 4-byte UTF-8 characters ONLY, long enough to lie across every byte offset 2^k (k = 12..17) of the saved part.
# A character of width w straddles a given offset unless the ASCII prefix has one particular length mod w: with three
# consecutive paddings (0, 1, 2 ASCII letters) every offset inside a run of one width is straddled in at least one (w = 2),
# two (w = 3, 4) of the three documents.  `order` rotates which width lies over which offsets.
WIDE_CHARS = {2: u'\u00e9\u0416\u07ff\u00a0', 3: u'\u20ac\u4e2d\u0800\ufffd\u212b', 4: u'\U0001F600\U00010000\U0002070E\U0010FFFD'}
STRADDLE_K = (12, 13, 14, 15, 16, 17)


def straddle_text(pad, order=0, total=140000):
    """pad ASCII letters, then three runs of multi-byte characters (one width each): bytes [0, 1/12) of `total`, [1/12, 1/3)
    and the rest - so that, behind a part header of 1-3 KiB, each run covers two of the offsets 2^12..2^17"""
    widths = [(2, 3, 4), (3, 4, 2), (4, 2, 3)][order % 3]
    runs = [total // 12, total // 3 - total // 12, total - total // 3]
    out = [u'abcdefghijklmnopqrstuvwxyz'[:pad]]
    for w, nbytes in zip(widths, runs):
        cs = WIDE_CHARS[w]
        n = nbytes // w
        out.append((cs * (n // len(cs) + 1))[:n])
    return u''.join(out)


def straddled_offsets(part):
    """[k] such that byte offset 2^k of the part (bytes) falls inside a multi-byte UTF-8 sequence (plain byte test)"""
    return [k for k in STRADDLE_K if len(part) > (1 << k) and (bytearray(part[(1 << k):(1 << k) + 1])[0] & 0xC0) == 0x80]


def first_wide_offset(part):
    """byte offset of the first non-ASCII byte of the part (-1: none).  The bytes in front of the text of a part depend on
    what the process did before (prefix table, declarations): a replay re-creates the recorded offset mod 12, not the padding"""
    for i, b in enumerate(bytearray(part)):
        if b >= 0x80:
            return i
    return -1

# -*- coding: utf-8 -*-
"""C20 - the list-style builder yields one correct level definition per specification.

translate:      harness/translate_attr.py (lean_easylist) -> Generated/EasyListRe.lean: the two regexes compiled inside
                styleFromList (format-character class; group 1 of the CSS-length regex as an `RE` term, its white-space and
                unit classes, shape checked with Python's own regex parser) and whether the unit is lower-cased (AST)
                harness/translate_grammar.py + translate_attr.py (the tables of odf/grammar.py and odf/attrconverters.py, same
                content as ./check C06 / C15 write) and lean_easylist_ids -> Generated/EasyListIds.lean: the ids of the four
                elements and ten attributes the builder touches, in both id spaces
proof:          lean/OdfModel/Props/C20Grammar.lean (ids_*, shape_*, grammar_accepts, values_accepted, ...) about
                lean/OdfModel/EasyListCalls.lean x GrammarApi x AttrConv over the regenerated tables;
                lean/OdfModel/Props/C20.lean (levels_count, levels_numbered, number_iff, prefix_suffix, num_format,
                display_levels, bullet_first_char, bullet_ignores_tail, indent_shape_partial, cssSplit_number, cssSplit_unit, split_join,
                string_form, ...) about
                lean/OdfModel/EasyList.lean
correspondence: children and attributes of the element returned by styleFromList / styleFromString  vs  drv_easylist
                (Python's float()/*/str() of the spacing number is passed to the model as its FloatOracle: partial)
                + the API calls the real function makes (trace of Element.__init__ / setAttribute / setAttrNS / addElement)
                vs drv_easylist `calls` (EasyList.callsOf): same calls, order, keywords, attributes stored, values; and the
                returned tree's (qname, attribute qnames, children) vs the replay of the model's calls
oracle:         written from the property text: one level per specification numbered 1..n, numbering vs bullet, first
                format character, prefix/suffix, display levels, bullet = first character, indentation = (i+1) x spacing
                (Decimal), same unit, accepted by automaticstyles.addElement, serialises to well-formed XML (expat)
"""
import io, re, xml.parsers.expat
from decimal import Decimal
from common import enc_str, dec_str
import common
import translate_attr as T

TEXTNS = u'urn:oasis:names:tc:opendocument:xmlns:text:1.0'
STYLENS = u'urn:oasis:names:tc:opendocument:xmlns:style:1.0'
SHORT = {TEXTNS: 'text', STYLENS: 'style'}
FORMATS = u'1IiAa'
CSS_UNITS = ['em', 'ex', 'ch', 'rem', 'lh', 'vw', 'vh', 'vmin', 'vmax', 'cm', 'mm', 'q', 'in', 'pt', 'pc', 'px']
CSS_NUMBERS = ['1', '0.6', '.5', '12.75', '5.0', '+2', '-1.5', '0', '10', '0.25', '3.125', '100', '0.1', '+.5', '-.25',
               '1e1', '2.5E-1', '5e-1', '1E+2', '-2e0', '.5e1']
PRE = [u'', u'(', u'Chapter ', u'§', u'第', u'\U0001F600', u'x.', u' ', u'<&"', u'[', u'é']
SUF = [u'', u')', u'.', u' -', u'章', u'\U0001F600', u':', u'.)', u'1', u'a', u'I.']     # later format characters stay in the suffix
BULLETS = [u'*', u'•', u'-', u'\U0001F600', u'→ x', u'é', u'bullet', u'>>', u' ', u'&<', u'\U0001D7D9', u'●○', u'+', u'o', u'ⅰ']
# what may FOLLOW the first character of a bullet specification without becoming part of the bullet ("a bullet level whose
# bullet is its first character": exactly one code point, whatever a renderer would cluster with it)
TAIL_CLASSES = [
    ('variation-selector', [u'\ufe0e', u'\ufe0f', u'\ufe00', u'\U000e0100', u'\u180b']),
    ('combining-mark', [u'\u0301', u'\u0338', u'\u20e3', u'\u20dd', u'\u0489', u'\u3099', u'\U0001d165', u'\u0301\u0323']),
    ('keycap', [u'\ufe0f\u20e3']),
    ('zwj-sequence', [u'\u200d\U0001f4bb', u'\u200d\u2642\ufe0f', u'\ufe0f\u200d\U0001f525', u'\u200d', u'\u200c', u'\u2060']),
    ('emoji-modifier', [u'\U0001f3fb', u'\U0001f3ff', u'\U0001f3fd\u200d\U0001f4bb']),
    ('astral', [u'\U0001f600', u'\U0001d7d9', u'\U0010fffd', u'\U0001f1ea', u'\U000e0067\U000e007f']),
    ('surrogate', [u'\ud83d', u'\ude00', u'\ud83d\ude00', u'\udbff\udfff']),
    ('conjoining', [u'\u1161', u'\u1161\u11a8', u'\u094d\u0937', u'\u0e33']),
]
# first characters none of which is one of 1 I i A a: symbols an emoji keyboard follows with a selector, ASCII keycap bases,
# letters that take marks, astral symbols / people / regional indicators, and marks, selectors and joiners standing first
HEADS = [u'\u2714', u'\u2764', u'\u2611', u'\u25b6', u'\u2022', u'*', u'#', u'-', u'e', u'o', u'\u00e9', u'\u4e2d', u'\u1100', u'\u0915',
         u'\U0001f469', u'\U0001f44d', u'\U0001f1e9', u'\U0001f3f3', u'\U0001d7d9', u'\u0301', u'\ufe0f', u'\ufe0e', u'\u200d', u'\u20e3']


def tail_class(spec):
    """class of what follows the first character of a specification (for the input distribution), or None"""
    for name, tails in TAIL_CLASSES:
        if any(spec[1:].startswith(t) for t in tails):
            return name
    return None


def gen_cluster_bullet(rng):
    """a bullet specification whose first character is followed by something a renderer clusters with it"""
    name, tails = rng.choice(TAIL_CLASSES)
    return rng.choice(HEADS) + rng.choice(tails) + rng.choice([u'', u'', u' x', u'\ufe0f', u'\u0301', u')', u'\U0001f600'])


DELIMS = [u',', u';', u'|', u'/', u'::', u' ', u'\t', u'!!', u'é', u'\U0001F600', u'<>', u'\n']


def qn(q):
    return SHORT.get(q[0], q[0]) + ':' + q[1]


def dump(st):
    """canonical observable of the returned element: own name, then per child its tag, attributes (sorted) and the
    attributes of its single list-level-properties child"""
    own = sorted((qn(k), v) for k, v in st.attributes.items())
    if [k for k, _ in own] != ['style:display-name', 'style:name'] or qn(st.qname) != 'text:list-style':
        return 'ok BAD-ROOT %r' % (own,)
    kids = list(st.childNodes)
    out = ['ok', enc_str(own[1][1]), enc_str(own[0][1]), str(len(kids))]
    for k in kids:
        at = sorted((qn(a), v) for a, v in k.attributes.items())
        out += [qn(k.qname), str(len(at))]
        for a, v in at:
            out += [a, enc_str(v)]
        gk = list(k.childNodes)
        if len(gk) != 1 or gk[0].nodeType != 1 or qn(gk[0].qname) != 'style:list-level-properties' or gk[0].childNodes:
            out.append('BAD-PROPS')
            continue
        pa = sorted((qn(a), v) for a, v in gk[0].attributes.items())
        out.append(str(len(pa)))
        for a, v in pa:
            out += [a, enc_str(v)]
    return ' '.join(out)


def float_oracle(css_re, spacing, n):
    """Python's part of the model: (base, [mul_1..mul_n]) or 'E'"""
    m = css_re.search(spacing)
    num = 0
    if m is not None:
        try:
            num = float(m.group(1))
        except ValueError:
            return 'E', []
    text = m.group(1) if m is not None else None

    def length_number(factor):
        # odf/easyliststyle.py:_lengthNumber (since /repo fe67379): positional notation where str(float) would use an exponent / inf
        s = str(num * factor)
        if text is not None and ('e' in s or 'n' in s):
            s = format(Decimal(text) * factor, 'f')
        return s
    return enc_str(length_number(1)), [enc_str(length_number(k)) for k in range(1, n + 1)]


CSS_LENGTH = re.compile(r'([+-]?(?:[0-9]+\.?[0-9]*|\.[0-9]+)(?:[eE][+-]?[0-9]+)?)[ \t]*([A-Za-z]*)\Z')   # a blank before the unit is tolerated
ODF_NUMBER = re.compile(r'-?([0-9]+(\.[0-9]*)?|\.[0-9]+)\Z')
NUM_BACK = re.compile(r'([+-]?(?:[0-9]+\.?[0-9]*|\.[0-9]+)(?:[eE][+-]?[0-9]+)?|[+-]?inf|nan)(.*)\Z', re.S)


def expected_levels(specs, show_all):
    """the property text, literally"""
    out = []
    for i, spec in enumerate(specs):
        idx = [j for j, c in enumerate(spec) if c in FORMATS]
        if idx:
            j = idx[0]
            out.append({'tag': 'text:list-level-style-number', 'text:level': str(i + 1), 'style:num-format': spec[j],
                        'style:num-prefix': spec[:j] or None, 'style:num-suffix': spec[j + 1:] or None,
                        'text:display-levels': str(i + 1 if show_all else 1)})
        else:
            out.append({'tag': 'text:list-level-style-bullet', 'text:level': str(i + 1), 'text:bullet-char': spec[0]})
    return out


def check_style(st, specs, spacing, show_all):
    """-> list of (signature-suffix, message) for every clause of the property the element breaks"""
    bad = []
    kids = [k for k in st.childNodes]
    if len(kids) != len(specs):
        return [('level-count', '%d level definitions for %d specifications' % (len(kids), len(specs)))]
    m = CSS_LENGTH.match(spacing)
    num, unit = Decimal(m.group(1)), m.group(2)
    for i, (k, exp) in enumerate(zip(kids, expected_levels(specs, show_all))):
        at = dict((qn(a), v) for a, v in k.attributes.items())
        if qn(k.qname) != exp['tag']:
            bad.append(('number-vs-bullet', 'level %d for %r is <%s>' % (i + 1, specs[i], qn(k.qname))))
            continue
        for key in exp:
            if key == 'tag':
                continue
            if at.get(key) != exp[key]:
                bad.append((key.split(':')[1], 'level %d for %r: %s is %r, expected %r' % (i + 1, specs[i], key, at.get(key), exp[key])))
        extra = set(at) - set(key for key in exp if exp[key] is not None)
        if extra:
            bad.append(('extra-attribute', 'level %d has unexpected attributes %s' % (i + 1, sorted(extra))))
        gk = list(k.childNodes)
        if len(gk) != 1 or qn(gk[0].qname) != 'style:list-level-properties':
            bad.append(('properties', 'level %d has no single list-level-properties child' % (i + 1)))
            continue
        pa = dict((qn(a), v) for a, v in gk[0].attributes.items())
        for key, factor in (('text:space-before', i + 1), ('text:min-label-width', 1)):
            mm = NUM_BACK.match(pa.get(key) or '')
            if not mm:
                bad.append(('indent', 'level %d: %s is %r' % (i + 1, key, pa.get(key))))
                continue
            try:
                got = Decimal(mm.group(1))
            except Exception:
                bad.append(('indent', 'level %d: %s is %r' % (i + 1, key, pa.get(key))))
                continue
            want = num * factor
            if not ODF_NUMBER.match(mm.group(1)):
                # the number of an ODF length (schema datatype `length`: -?([0-9]+(\.[0-9]*)?|\.[0-9]+)unit) has no exponent
                bad.append(('indent-number-form', 'level %d: %s is %r: an ODF length has no exponent / inf / nan' % (i + 1, key, pa.get(key))))
            if mm.group(2) != unit.lower():      # ODF lengths (the schema's `length`) spell their unit in lower case
                bad.append(('indent-unit', 'level %d: %s is %r, the spacing unit is %r' % (i + 1, key, pa.get(key), unit)))
            if abs(got - want) > Decimal('1e-9') * max(Decimal(1), abs(want)):
                bad.append(('indent', 'level %d: %s is %r, expected %s x %s%s' % (i + 1, key, pa.get(key), factor, num, unit)))
    return bad


def wellformed_levels(st):
    buf = io.StringIO()
    st.toXml(0, buf)
    seen = []
    p = xml.parsers.expat.ParserCreate(namespace_separator=u' ')
    p.StartElementHandler = lambda name, attrs: seen.append((name, dict(attrs)))
    p.Parse(buf.getvalue().encode('utf-8'), True)
    return seen


_NEIGHBOURS = []


def format_neighbours():
    import unicodedata
    if not _NEIGHBOURS:
        for cp in range(128, 0x110000):
            if 0xD800 <= cp <= 0xDFFF:
                continue
            c = chr(cp)
            forms = (c.lower(), c.upper(), c.casefold(), unicodedata.normalize('NFKC', c), unicodedata.normalize('NFKD', c)[:1])
            if any(f in (u'1', u'I', u'i', u'A', u'a') for f in forms) or unicodedata.digit(c, None) == 1:
                _NEIGHBOURS.append(c)
    return _NEIGHBOURS


def gen_specs(rng, n):
    specs = []
    for _ in range(n):
        r = rng.random()
        if r < 0.55:
            pre = rng.choice(PRE); suf = rng.choice(SUF)
            pos = rng.choice(['start', 'middle', 'end'])
            if pos == 'start': pre = u''
            if pos == 'end': suf = u''
            specs.append(pre + rng.choice(FORMATS) + suf)
        elif r < 0.80:
            specs.append(rng.choice(BULLETS))
        elif r < 0.92:
            specs.append(gen_cluster_bullet(rng))
        else:
            specs.append(rng.choice(format_neighbours()) + rng.choice([u'', u')', u'.']))
    return specs


# ---------------------------------------------------------------------- Generated/EasyListIds.lean (Props/C20Grammar)
OFFICE_SHORT = {TEXTNS: 'text', STYLENS: 'style'}
EASY_ELEMS = [('eListStyle', (TEXTNS, u'list-style')), ('eNumber', (TEXTNS, u'list-level-style-number')),
              ('eBullet', (TEXTNS, u'list-level-style-bullet')), ('eProps', (STYLENS, u'list-level-properties'))]
EASY_ATTRS = [('aStyleName', (STYLENS, u'name')), ('aDisplayName', (STYLENS, u'display-name')), ('aLevel', (TEXTNS, u'level')),
              ('aNumFormat', (STYLENS, u'num-format')), ('aNumPrefix', (STYLENS, u'num-prefix')),
              ('aNumSuffix', (STYLENS, u'num-suffix')), ('aDisplayLevels', (TEXTNS, u'display-levels')),
              ('aBulletChar', (TEXTNS, u'bullet-char')), ('aSpaceBefore', (TEXTNS, u'space-before')),
              ('aMinLabelWidth', (TEXTNS, u'min-label-width'))]


def lean_easylist_ids(G, tr):
    """ids of the four elements and ten attributes styleFromList touches, in the two id spaces of the generated tables:
    grammar (GrammarNames.elemName / attrName, translate_grammar) and converter table (AttrSchema.qnames, translate_attr).
    A name the tables do not have gets the first id outside the table, so that the Lean proof that the id names it fails."""
    L = ['-- GENERATED by harness/c20.py from the name tables of translate_grammar.py / translate_attr.py on every run of',
         '-- ./check C20 -- do not edit.  Props/C20Grammar.lean proves that every id below names what its identifier says.',
         'namespace OdfModel.Generated.EasyListIds', '',
         '/-! ids in Generated/GrammarNames.lean (`elemName`, `attrName`) -/']
    missing = []
    for ident, q in EASY_ELEMS:
        i = G.elems.ids.get(q)
        if i is None:
            missing.append(qn(q)); i = len(G.elems.items)
        L.append('def %s : Nat := %d  -- %s' % (ident, i, qn(q)))
    for ident, q in EASY_ATTRS:
        i = G.attrs.ids.get(q)
        if i is None:
            missing.append(qn(q)); i = len(G.attrs.items)
        L.append('def %s : Nat := %d  -- %s' % (ident, i, qn(q)))
    L += ['', '/-! ids of the same names in Generated/AttrSchema.lean (`qnames`; the id space of AttrTable.bindings) -/']
    for ident, q in EASY_ELEMS + EASY_ATTRS:
        i = tr.qid.get(q)
        if i is None:
            missing.append('conv ' + qn(q)); i = len(tr.qnames)
        L.append('def c%s : Nat := %d  -- %s' % (ident[1:], i, qn(q)))
    L += ['', 'end OdfModel.Generated.EasyListIds']
    return '\n'.join(L) + '\n', missing


def traced_call(G, name, specs, spacing, show_all):
    """run the real styleFromList with Element.__init__ / setAttribute / setAttrNS / addElement wrapped (in this process
    only, restored afterwards) -> (element | None, the calls in the wire form of drv_easylist `calls`)"""
    from odf import easyliststyle
    from odf.element import Element
    orig = (Element.__init__, Element.setAttribute, Element.setAttrNS, Element.addElement)
    log, state = [], {'depth': 0, 'touched': None}
    eid = lambda q: str(G.elems.ids.get(tuple(q), -1))
    aid = lambda q: str(G.attrs.ids.get(tuple(q), -1))
    val = lambda v: enc_str(v if isinstance(v, str) else str(v))
    RESERVED = ('attributes', 'text', 'cdata', 'qname', 'qattributes', 'check_grammar', 'parent')

    def outer(fn):
        state['depth'] += 1
        try:
            return fn()
        finally:
            state['depth'] -= 1

    def w_init(self, *a, **kw):
        if state['depth'] > 0:
            return orig[0](self, *a, **kw)
        state['touched'] = touched = []
        try:
            return outer(lambda: orig[0](self, *a, **kw))
        finally:
            # logged even when the constructor raises: the exception then surfaces as `err Other …`
            keys = [k for k in kw if k not in RESERVED]
            toks = ['C', eid(kw.get('qname', getattr(self, 'qname', ('', '')))), str(len(keys))]
            for i, k in enumerate(keys):
                toks += [enc_str(k), aid(touched[i]) if i < len(touched) else '-1', val(kw[k])]
            if len(touched) != len(keys):
                toks.append('TOUCHED-%d' % len(touched))
            log.append(' '.join(toks))

    def w_setattribute(self, attr, value, *a, **kw):
        if state['depth'] > 0:
            return orig[1](self, attr, value, *a, **kw)
        state['touched'] = touched = []
        try:
            return outer(lambda: orig[1](self, attr, value, *a, **kw))
        finally:
            log.append(' '.join(['S', eid(self.qname), enc_str(attr) if isinstance(attr, str) else 'NOT-A-KEYWORD',
                                 aid(touched[0]) if len(touched) == 1 else 'TOUCHED-%d' % len(touched), val(value)]))

    def w_setattrns(self, namespace, localpart, value):
        if state['depth'] > 0:
            if state['touched'] is not None:
                state['touched'].append((namespace, localpart))
            return orig[2](self, namespace, localpart, value)
        try:
            return outer(lambda: orig[2](self, namespace, localpart, value))
        finally:
            log.append(' '.join(['N', eid(self.qname), aid((namespace, localpart)), val(value)]))

    def w_addelement(self, element, *a, **kw):
        if state['depth'] > 0:
            return orig[3](self, element, *a, **kw)
        try:
            return outer(lambda: orig[3](self, element, *a, **kw))
        finally:
            log.append(' '.join(['A', eid(self.qname), eid(element.qname)]))

    Element.__init__, Element.setAttribute, Element.setAttrNS, Element.addElement = w_init, w_setattribute, w_setattrns, w_addelement
    try:
        try:
            st = easyliststyle.styleFromList(name, list(specs), spacing, show_all)
        except ValueError:
            return None, 'err ValueError'
        except IndexError:
            return None, 'err IndexError'
        except Exception as ex:
            return None, 'err Other %s after %s' % (type(ex).__name__, ' | '.join(log[-2:]))
    finally:
        Element.__init__, Element.setAttribute, Element.setAttrNS, Element.addElement = orig
    return st, ' '.join(['ok', str(len(log))] + log)


def tree_ids(G, el):
    """(element id, sorted attribute ids, children) of a real element tree, ids of the grammar name tables"""
    return (G.elems.ids.get(tuple(el.qname), -1), sorted(G.attrs.ids.get(tuple(a), -1) for a in el.attributes),
            [tree_ids(G, k) for k in el.childNodes if k.nodeType == 1])


def replay_calls(answer):
    """the tree the model's calls build: a constructor makes a new element, setAttribute / setAttrNS / addElement act on
    the most recent element of that name (the program has one live element per name at any time)"""
    toks = answer.split(' ')
    n, i = int(toks[1]), 2
    live, first = {}, None
    for _ in range(n):
        op = toks[i]
        if op == 'C':
            e, k = int(toks[i + 1]), int(toks[i + 2])
            node = [e, set(int(toks[i + 3 + 3 * j + 1]) for j in range(k)), []]
            live[e] = node
            if first is None:
                first = node
            i += 3 + 3 * k
        elif op == 'S':
            live[int(toks[i + 1])][1].add(int(toks[i + 3])); i += 5
        elif op == 'N':
            live[int(toks[i + 1])][1].add(int(toks[i + 2])); i += 4
        elif op == 'A':
            live[int(toks[i + 1])][2].append(live[int(toks[i + 2])]); i += 3
        else:
            raise ValueError('bad call token %r' % op)
    freeze = lambda nd: (nd[0], sorted(nd[1]), [freeze(c) for c in nd[2]])
    return freeze(first)


def run(chk, replay=None):
    from odf import easyliststyle
    from odf.opendocument import OpenDocumentText
    chk.rule = ('seeded specification lists: 1-10 levels, each numbering (format character at start/middle/end, prefixes and '
                'suffixes incl. non-ASCII, astral, XML-special, later format characters) or bullet (ASCII, non-ASCII, astral, '
                'multi-character; first character followed by variation selectors, combining marks, keycaps, ZWJ sequences, emoji '
                'modifiers, astral characters, surrogates, conjoining letters); both display modes; spacing = every CSS unit x decimal/signed numbers; string form with 12 '
                'delimiters; plus malformed inputs (empty specification, empty delimiter, non-numeric spacing) for the '
                'correspondence only; non-trivial = at least one numbering and the list has >= 2 levels, or a non-ASCII bullet')

    def call(kind, name, payload, spacing, show_all):
        try:
            if kind == 'list':
                st = easyliststyle.styleFromList(name, list(payload), spacing, show_all)
            else:
                st = easyliststyle.styleFromString(name, payload[0], payload[1], spacing, show_all)
            return st, dump(st)
        except ValueError:
            return None, 'err ValueError'
        except IndexError:
            return None, 'err IndexError'
        except Exception as ex:
            return None, 'err Other %s' % type(ex).__name__

    def oracle(kind, name, payload, specs, spacing, show_all, case):
        """the property on the real library; specs = the specifications the caller meant"""
        st, res = call(kind, name, payload, spacing, show_all)
        cls = spacing_class(spacing)
        if st is None:
            chk.fail('raised:%s' % cls, case, '%s on specs=%r spacing=%r' % (res, specs, spacing))
            return
        for sig, msg in check_style(st, specs, spacing, show_all):
            # the spacing class only qualifies the clauses that depend on the spacing
            c2 = cls if sig in ('indent', 'indent-unit') else 'css'
            chk.fail('%s:%s' % (sig, c2), case, msg + ' (specs=%r spacing=%r showAll=%r)' % (specs, spacing, show_all))
        try:
            doc = OpenDocumentText()
            doc.automaticstyles.addElement(st)
        except Exception as ex:
            chk.fail('not-accepted', case, 'automaticstyles.addElement raised %r' % (ex,))
            return
        try:
            seen = wellformed_levels(st)
        except xml.parsers.expat.ExpatError as ex:
            chk.fail('not-wellformed', case, 'serialised list style is not well-formed: %s' % ex)
            return
        lv = [a for n_, a in seen if n_.endswith(' list-level-style-number') or n_.endswith(' list-level-style-bullet')]
        exp = expected_levels(specs, show_all)
        for a, e in zip(lv, exp):
            for key in ('style:num-format', 'style:num-prefix', 'style:num-suffix', 'text:bullet-char'):
                if e.get(key) is not None:
                    ns = STYLENS if key.startswith('style:') else TEXTNS
                    if a.get(ns + ' ' + key.split(':')[1]) != e[key]:
                        chk.fail('serialised:%s' % key.split(':')[1], case, 'serialised %s is %r, expected %r' % (key, a.get(ns + ' ' + key.split(':')[1]), e[key]))

    def spacing_class(spacing):
        return 'css' if CSS_LENGTH.match(spacing) else 'not-a-css-length'

    if replay is not None:
        inp = replay['input']
        specs = [dec_str(x) for x in inp['specs']]
        if inp['kind'] == 'list':
            payload = specs
        else:
            payload = (dec_str(inp['specifiers']), dec_str(inp['delim']))
        oracle(inp['kind'], dec_str(inp['name']), payload, specs, dec_str(inp['spacing']), inp['showAll'], inp)
        for f in chk.failures:
            print('replay: %s: %s' % (f['sig'], f['detail']))
        for k, h in chk.known_hits.items():
            print('replay (known %s): %s' % (k, h['detail']))
        return 1 if chk.failures else 0

    # ------------------------------------------------------------ 1 translate
    text, info = T.lean_easylist(common.REPO)
    chk.write_generated('EasyListRe', text)
    chk.obligation('translator: numFormatPattern / cssLengthPattern have the shapes ([C]) and (G1)\\s*([U]+)? the model is written for',
                   info['ok'], repr(dict((k, v) for k, v in info.items() if k != 'num_ast')))
    chk.assumptions.append('C20: Python float(), float multiplication and str(float) are a parameter of the model (FloatOracle); '
                           'the proportional-indentation clause is checked by correspondence and by the oracle only')
    # the grammar / converter tables Props/C20Grammar speaks about, regenerated from the working tree, and the ids in them
    G = tr = None
    try:
        import translate_grammar as tg
        G = tg.translate(common.REPO)
        tg.write(chk, G)
        tr = T.Translation(common.REPO)
        chk.write_generated('AttrConv', tr.lean_code())
        chk.write_generated('AttrSchema', tr.lean_schema())
        chk.write_generated('AttrTable', tr.lean_table())
        ids_text, ids_missing = lean_easylist_ids(G, tr)
        chk.write_generated('EasyListIds', ids_text)
        chk.obligation('translator: the four elements and ten attributes of easyliststyle.py are in the grammar and converter name tables',
                       not ids_missing, ', '.join(ids_missing))
    except Exception as ex:      # the sources no longer have the form the translators read
        G = tr = None
        chk.obligation('translator: odf/grammar.py / odf/attrconverters.py can be read (Generated/EasyListIds.lean)', False, repr(ex))
    # ------------------------------------------------------------ 2 prove
    chk.prove(modules=['OdfModel.Props.C20', 'OdfModel.Props.C20Grammar'], drivers=['drv_easylist'])
    drv = chk.driver('drv_easylist')
    css_re = re.compile(info['cssLengthPattern']) if info['cssLengthPattern'] else re.compile('x^')
    fmt_re = re.compile(info['numFormatPattern']) if info['numFormatPattern'] else re.compile('x^')
    rng = chk.rng
    thorough = chk.tier == 'thorough'

    # ------------------------------------------------------------ cases
    cases = []     # (kind, name, payload, specs, spacing, showAll, in_scope)
    spacings = [n + u for u in CSS_UNITS for n in (CSS_NUMBERS if thorough else rng.sample(CSS_NUMBERS, 4))]
    names = [u'L1', u'My List', u'a:b', u'Liste é', u'x']
    # every mix of numbering / bullet for small n, systematically
    for n in range(1, 4):
        for mask in range(2 ** n):
            specs = [(u'(' + FORMATS[(mask + j) % 5] + u')') if (mask >> j) & 1 else BULLETS[(mask + j) % len(BULLETS)] for j in range(n)]
            for sa in (True, False):
                cases.append(('list', u'L', specs, specs, spacings[(mask + n) % len(spacings)], sa, True))
    # every format char x position
    for f in FORMATS:
        for pre, suf in ((u'', u''), (u'', u')'), (u'(', u''), (u'(', u')'), (u'第', u'章'), (u'\U0001F600', u'\U0001F600'), (u'x', u'1a')):
            cases.append(('list', u'L', [pre + f + suf], [pre + f + suf], u'0.6cm', True, True))
    # every printable ASCII character (and a sample of others) alone and after a bullet-ish prefix: which characters count
    # as format characters is part of the property
    singles = [chr(c) for c in range(32, 127)] + [u'é', u'Ⅰ', u'ⅰ', u'１', u'Ａ', u'𝟏', u'α', u'І', u'і', u'А', u'а']
    # the Unicode neighbours of the five format characters: everything whose lower / upper / case-folded / compatibility
    # form is one of 1 I i A a (dotless and dotted i, full-width and mathematical letters, Roman numerals) and every
    # other digit one.  The property says: numbering iff one of the five ASCII characters occurs.
    singles += [c for c in format_neighbours() if c not in singles]
    for c in singles:
        cases.append(('list', u'L', [c, u'-' + c], [c, u'-' + c], u'1cm', True, True))
    # every head x everything that may follow it (variation selectors, combining marks, keycaps, ZWJ sequences, emoji
    # modifiers, astral characters, surrogates, conjoining letters): the bullet is the first code point, alone
    k = 0
    for cname, tails in TAIL_CLASSES:
        for t in tails:
            for h in (HEADS if thorough else HEADS[:6] + rng.sample(HEADS[6:], 6)):
                k += 1
                specs = [h + t, u'(1)', h + t + u' x'] if k % 3 == 0 else [h + t]
                cases.append(('list', u'L', specs, specs, u'0.5cm', k % 2 == 0, True))
                if k % 5 == 0:
                    cases.append(('str', u'L', (u'|'.join(specs), u'|'), specs, u'0.5cm', True, True))
    N = 6000 if thorough else 1500
    for _ in range(N):
        n = rng.randint(1, 10)
        specs = gen_specs(rng, n)
        cases.append(('list', rng.choice(names), specs, specs, rng.choice(spacings), rng.random() < 0.5, True))
    # every spelling of a CSS length: units in upper / mixed case, exponents in both cases, signs, leading dot, a blank
    # between number and unit
    def respell(sp):
        m = CSS_LENGTH.match(sp)
        num, unit = m.group(1), m.group(2)
        unit = rng.choice([unit, unit.upper(), unit.capitalize(), u''.join(rng.choice([c, c.upper()]) for c in unit)])
        return num + rng.choice([u'', u'', u' ', u'\t']) + unit
    for sp in [u'1CM', u'2Pt', u'3Q', u'0.5IN', u'1e1mm', u'2.5E-1cm', u'1E2px', u'5e-1em', u'+.5 In', u'-1.5E+1 PC', u'1 cm', u'.5e1Mm',
               u'7', u'0', u'1e0']:
        specs = gen_specs(rng, 3)
        cases.append(('list', u'L', specs, specs, sp, True, True))
    for _ in range(N // 3):
        n = rng.randint(1, 10)
        specs = gen_specs(rng, n)
        cases.append(('list', u'L', specs, specs, respell(rng.choice(spacings)), rng.random() < 0.5, True))
    # string form
    for _ in range(N // 2):
        d = rng.choice(DELIMS)
        n = rng.randint(1, 10)
        specs = [s for s in gen_specs(rng, n)]
        specs = [s.replace(d, u'') or u'*' for s in specs]
        # removing the delimiter may leave a lone surrogate in FIRST position: no character an XML attribute can hold (what the
        # writer does with those is properties C01 / C02), so such a bullet is outside this property; keep it behind a bullet
        specs = [(u'*' + s) if 0xD800 <= ord(s[0]) <= 0xDFFF else s for s in specs]
        # a delimiter that re-appears across a boundary changes the split (str.split cuts at the leftmost occurrence):
        # such inputs stay in the correspondence but the oracle is only asked about what the caller can mean
        scope = d.join(specs).split(d) == specs
        cases.append(('str', u'L', (d.join(specs), d), specs, rng.choice(spacings), rng.random() < 0.5, scope))
    # delimiters that are format characters, overlapping delimiters
    for payload in [(u'1a1b1', u'1'), (u'aXXXb', u'XX'), (u'a,,b', u','), (u',a', u','), (u'a,', u','), (u'', u','), (u'abc', u'abc'),
                    (u'a b  c', u' '), (u'x', u''), (u'(1);*;(a)', u';'), (u'....', u'..')]:
        cases.append(('str', u'L', payload, None, u'1cm', True, False))
    # malformed / out of scope, correspondence only
    for specs, sp in [([u''], u'1cm'), ([u'*', u''], u'1cm'), ([], u'1cm'), ([u'*'], u''), ([u'*'], u'cm'), ([u'*'], u'1,5cm'),
                      ([u'*'], u'50%'), ([u'*'], u' 1 cm'), ([u'*'], u'abc12de'), ([u'*'], u'1_0cm'), ([u'*'], u'INF'), ([u'*'], u'NAN'),
                      ([u'*'], u'1cm2mm'), ([u'*'], u'cm1'), ([u'*'], u'0.00001cm'), ([u'*'], u'1e400cm'), ([u'*'], u'١cm'),
                      ([u'1'] * 12, u'1cm'), ([u'*'], u'\n1\ncm'), ([u'*'], u'１cm')]:
        cases.append(('list', u'L', specs, specs, sp, False, False))

    # ------------------------------------------------------------ 3 correspondence
    lines = []
    for kind, name, payload, specs, spacing, sa, scope in cases:
        if kind == 'list':
            base, muls = float_oracle(css_re, spacing, len(payload))
            lines.append(' '.join(['list', '1' if sa else '0', enc_str(name), enc_str(spacing), base, str(len(payload))]
                                  + [enc_str(s) for s in payload] + muls))
        else:
            try:
                m = len(payload[0].split(payload[1]))
            except ValueError:
                m = 0
            base, muls = float_oracle(css_re, spacing, m)
            lines.append(' '.join(['str', '1' if sa else '0', enc_str(name), enc_str(payload[0]), enc_str(payload[1]),
                                   enc_str(spacing), base, str(m)] + muls))
    answers = drv.batch(lines)
    for (kind, name, payload, specs, spacing, sa, scope), line, ans in zip(cases, lines, answers):
        st, res = call(kind, name, payload, spacing, sa)
        chk.corr(); chk.count('corr_' + kind)
        if res != ans:
            chk.corr_diff({'line': line}, res, ans, 'children and attributes of the returned list style')
    # the two regexes on their own
    probes = [u'', u'cm', u'1', u'0.6cm', u' 1 cm', u'ab12cd34', u'1CM', u'é1ü', u'\n1\n', u'a', u'1a', u'--', u'1e1mm', u'12 pt x',
              u'1e', u'1e+', u'1.e5x', u'..5', u'+-1', u'1.2.3cm', u'e5', u'-', u'.', u'1\u00a0cm', u'1\u2003Cm', u'1K', u'5\u212a', u'x-.5E-3Q', u'1 2 3',
              u'1ecm', u'1E', u'0x10', u'١٢cm', u'１cm', u'1.cm', u'+.e1']
    probes += [sp for _, _, _, _, sp, _, _ in cases[:200]]
    rl, rx = [], []
    for s in sorted(set(probes)):
        m = css_re.search(s)
        rl.append('css ' + enc_str(s))
        unit = (m.group(2) if m.lastindex == 2 else u'') if m is not None else u''
        if info.get('unit_expr') == 'm.group(2).lower()':
            unit = unit.lower()
        rx.append('ok none' if m is None else 'ok %s %s' % (enc_str(m.group(1)), enc_str(unit)))
    for _, _, payload, specs, _, _, _ in cases:
        for s in (specs or []):
            m = fmt_re.search(s)
            rl.append('fmt ' + enc_str(s))
            rx.append('ok none' if m is None else 'ok %s %s %s' % (enc_str(s[:m.start(1)]), enc_str(m.group(1)), enc_str(s[m.end(1):])))
    seen = set(); rl2, rx2 = [], []
    for l, x in zip(rl, rx):
        if l not in seen:
            seen.add(l); rl2.append(l); rx2.append(x)
    for l, x, g in zip(rl2, rx2, drv.batch(rl2)):
        chk.corr(); chk.count('corr_regex')
        if x != g:
            chk.corr_diff({'line': l}, x, g, 'numFormatPattern / cssLengthPattern search')

    # ------------------------------------------------------------ 3b the calls the real function makes vs EasyList.callsOf
    if G is not None:
        call_cases = [c for c in cases if c[0] == 'list']
        if not thorough:
            call_cases = call_cases[:130] + rng.sample(call_cases[130:], min(400, max(0, len(call_cases) - 130)))
        clines = []
        for kind, name, payload, specs, spacing, sa, scope in call_cases:
            base, muls = float_oracle(css_re, spacing, len(payload))
            clines.append(' '.join(['calls', '1' if sa else '0', enc_str(name), enc_str(spacing), base, str(len(payload))]
                                   + [enc_str(x) for x in payload] + muls))
        canswers = drv.batch(clines)
        for (kind, name, payload, specs, spacing, sa, scope), line, ans in zip(call_cases, clines, canswers):
            st, res = traced_call(G, name, payload, spacing, sa)
            chk.corr(); chk.count('corr_calls')
            if res != ans:
                chk.corr_diff({'line': line}, res, ans, 'API calls made by styleFromList (factory keywords, setAttribute, setAttrNS, addElement)')
                continue
            if st is not None:
                chk.corr(); chk.count('corr_calls_tree')
                real = tree_ids(G, st)
                replayed = replay_calls(ans)
                if real != replayed:
                    chk.corr_diff({'line': line}, repr(real), repr(replayed),
                                  'element names, attribute names and children of the returned tree vs the replay of the model calls')

    # ------------------------------------------------------------ 4 oracle
    for kind, name, payload, specs, spacing, sa, scope in cases:
        if not scope or not specs or not (1 <= len(specs) <= 10) or any(s == u'' for s in specs):
            continue
        if spacing_class(spacing) == 'not-a-css-length':
            continue
        case = {'kind': kind, 'name': enc_str(name), 'specs': [enc_str(s) for s in specs], 'spacing': enc_str(spacing), 'showAll': sa}
        if kind == 'str':
            case['specifiers'] = enc_str(payload[0]); case['delim'] = enc_str(payload[1])
        numbered = sum(1 for s in specs if any(c in FORMATS for c in s))
        chk.case((kind, tuple(specs), spacing, sa, payload[1] if kind == 'str' else None),
                 nontrivial=(numbered >= 1 and len(specs) >= 2) or any(ord(s[0]) > 127 for s in specs),
                 sample={'specs': specs, 'spacing': spacing, 'showAll': sa, 'kind': kind})
        chk.count('levels_%d' % len(specs)); chk.count('numbered', numbered); chk.count('bullets', len(specs) - numbered)
        chk.count('spacing_' + spacing_class(spacing)); chk.count('oracle_' + kind)
        for s_ in specs:
            if not any(c in FORMATS for c in s_) and tail_class(s_):
                chk.count('bullet_followed_by_' + tail_class(s_))
        mcss = CSS_LENGTH.match(spacing)
        if re.search(r'[eE]', mcss.group(1)): chk.count('spacing_exponent')
        if mcss.group(2) != mcss.group(2).lower(): chk.count('spacing_uppercase_unit')
        if re.search(r'[ \t]', spacing): chk.count('spacing_blank_before_unit')
        if mcss.group(1)[0] in '+-': chk.count('spacing_signed')
        if mcss.group(1).lstrip('+-').startswith('.'): chk.count('spacing_leading_dot')
        oracle(kind, name, payload, specs, spacing, sa, case)

    def deep():
        for _ in range(3000):
            n = rng.randint(1, 10)
            specs = gen_specs(rng, n)
            sp = rng.choice(spacings); sa = rng.random() < 0.5
            case = {'kind': 'list', 'name': enc_str(u'L'), 'specs': [enc_str(s) for s in specs], 'spacing': enc_str(sp), 'showAll': sa}
            oracle('list', u'L', specs, specs, sp, sa, case)
    chk.deep_search = deep
    return chk.finish()

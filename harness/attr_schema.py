# -*- coding: utf-8 -*-
"""
Small, self-contained extraction of attribute datatypes from the shipped RELAX-NG schema
(grammar/OpenDocument-schema-v1.2-cd04.rng) for property C15.

For every <element> pattern and every <attribute> pattern reachable from it without crossing
another <element> (refs resolved through the defines, `combine` honoured by taking every body),
yields (element qname, attribute qname, datatype) where datatype is a *normal form*:

    a sorted tuple of atoms, each atom one of
        ('val', 'literal')                         <value>literal</value>
        ('data', xsdtype, pattern_or_None, params) <data type="..."> with its <param>s
                                                   (params = sorted tuple of the non-pattern params)
        ('list', body)                             <list>; body = tuple of parts in document order, each
                                                   ('item', atoms) | ('opt', body) | ('star', body) | ('plus', body)
        ('text',)                                  <text/> or an attribute without content
        ('empty',)                                 <empty/>  (the empty string)

`choice` is flattened, `ref` is resolved; qnames are (namespace-uri, local).
Nothing here is shared with odfpy (xml.etree only).
"""
import os
import xml.etree.ElementTree as ET

RNG = '{http://relaxng.org/ns/structure/1.0}'


def _local(tag):
    return tag[len(RNG):] if tag.startswith(RNG) else None


class Schema(object):
    def __init__(self, path):
        self.path = path
        # keep prefix map: ElementTree drops xmlns declarations, so read them with iterparse
        self.nsmap = {}
        for ev, item in ET.iterparse(path, events=('start-ns',)):
            pfx, uri = item
            self.nsmap.setdefault(pfx, uri)
        self.nsmap.setdefault('xml', 'http://www.w3.org/XML/1998/namespace')
        self.root = ET.parse(path).getroot()
        self.defines = {}
        for d in self.root.iter(RNG + 'define'):
            self.defines.setdefault(d.get('name'), []).append(d)
        self._attr_memo = {}
        self._dt_memo = {}

    # ------------------------------------------------------------------ names
    def qname(self, s):
        s = s.strip()
        if ':' in s:
            p, l = s.split(':', 1)
            return (self.nsmap[p], l)
        return ('', s)

    def names_of(self, node):
        """names of an <element>/<attribute> pattern; None for anyName/nsName"""
        if node.get('name') is not None:
            return [self.qname(node.get('name'))]
        first = None
        for ch in node:
            if _local(ch.tag) is not None:
                first = ch
                break
        if first is None:
            return None
        return self._nameclass(first)

    def _nameclass(self, nc):
        t = _local(nc.tag)
        if t == 'name':
            return [self.qname(nc.text)]
        if t == 'choice':
            out = []
            for ch in nc:
                r = self._nameclass(ch)
                if r is None:
                    return None
                out.extend(r)
            return out
        return None   # anyName, nsName, except

    def content_children(self, node):
        """pattern children of an element/attribute (skipping the name class if it is a child)"""
        kids = [ch for ch in node if _local(ch.tag) is not None]
        if node.get('name') is None and kids:
            kids = kids[1:]
        return kids

    # ------------------------------------------------------------------ attribute patterns under an element
    def attrs_under(self, node):
        """list of <attribute> nodes reachable from pattern `node` without entering an <element>"""
        t = _local(node.tag)
        if t == 'attribute':
            return [node]
        if t == 'element':
            return []
        if t == 'ref':
            name = node.get('name')
            if name in self._attr_memo:
                return self._attr_memo[name]
            self._attr_memo[name] = []          # cut cycles (only through elements in practice)
            out = []
            for d in self.defines.get(name, []):
                for ch in d:
                    out.extend(self.attrs_under(ch))
            self._attr_memo[name] = out
            return out
        out = []
        for ch in node:
            if _local(ch.tag) is not None:
                out.extend(self.attrs_under(ch))
        return out

    def elements(self):
        return list(self.root.iter(RNG + 'element'))

    # ------------------------------------------------------------------ datatypes
    def datatype(self, attr_node):
        kids = self.content_children(attr_node)
        if not kids:
            return (('text',),)
        atoms = []
        for k in kids:
            atoms.extend(self._dt(k))
        return tuple(sorted(set(atoms), key=repr))

    def _dt(self, node):
        t = _local(node.tag)
        if t == 'value':
            return [('val', node.text or '')]
        if t == 'data':
            pat = None
            params = []
            for p in node.findall(RNG + 'param'):
                if p.get('name') == 'pattern':
                    pat = p.text
                else:
                    params.append((p.get('name'), p.text))
            return [('data', node.get('type'), pat, tuple(sorted(params)))]
        if t == 'text':
            return [('text',)]
        if t == 'empty':
            return [('empty',)]
        if t == 'choice' or t == 'group' or t == 'optional':
            out = []
            for ch in node:
                if _local(ch.tag) is not None:
                    out.extend(self._dt(ch))
            if t == 'optional':
                out.append(('empty',))
            return out
        if t == 'ref':
            name = node.get('name')
            if name not in self._dt_memo:
                self._dt_memo[name] = None
                out = []
                for d in self.defines.get(name, []):
                    for ch in d:
                        if _local(ch.tag) is not None:
                            out.extend(self._dt(ch))
                self._dt_memo[name] = out
            r = self._dt_memo[name]
            if r is None:
                raise ValueError('recursive datatype define ' + name)
            return list(r)
        if t == 'list':
            return [('list', self._list_body(node))]
        raise ValueError('unexpected pattern <%s> inside an attribute' % t)

    def _list_body(self, node):
        """the token pattern of a <list>: a tuple of parts, each
           ('item', atoms) | ('opt', body) | ('star', body) | ('plus', body)"""
        parts = []
        for ch in node:
            lt = _local(ch.tag)
            if lt is None:
                continue
            if lt == 'zeroOrMore':
                parts.append(('star', self._list_body(ch)))
            elif lt == 'oneOrMore':
                parts.append(('plus', self._list_body(ch)))
            elif lt == 'optional':
                parts.append(('opt', self._list_body(ch)))
            elif lt == 'group':
                parts.extend(self._list_body(ch))
            else:
                parts.append(('item', tuple(sorted(set(self._dt(ch)), key=repr))))
        return tuple(parts)

    def first_ref(self, attr_node):
        kids = self.content_children(attr_node)
        if len(kids) == 1 and _local(kids[0].tag) == 'ref':
            return kids[0].get('name')
        return None

    # ------------------------------------------------------------------ the table
    def occurrences(self):
        """sorted list of (element qname, attribute qname, datatype NF, define name or None)"""
        rows = set()
        for el in self.elements():
            enames = self.names_of(el)
            if enames is None:
                continue
            attrs = []
            for ch in self.content_children(el):
                attrs.extend(self.attrs_under(ch))
            for a in attrs:
                anames = self.names_of(a)
                if anames is None:
                    continue
                dt = self.datatype(a)
                ref = self.first_ref(a)
                for en in enames:
                    for an in anames:
                        rows.add((en, an, dt, ref))
        return sorted(rows, key=repr)


def default_path(repo):
    return os.path.join(repo, 'grammar', 'OpenDocument-schema-v1.2-cd04.rng')


if __name__ == '__main__':
    import sys, collections
    sc = Schema(default_path(sys.argv[1] if len(sys.argv) > 1 else '/repo'))
    occ = sc.occurrences()
    print(len(occ), 'occurrences;', len(set((e, a) for e, a, _, _ in occ)), 'pairs;',
          len(set(d for _, _, d, _ in occ)), 'distinct datatypes')
    c = collections.Counter(d for _, _, d, _ in occ)
    for d, n in c.most_common(40):
        print(n, d)

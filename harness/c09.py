# -*- coding: utf-8 -*-
"""C09 - document-wide lookups always agree with the current tree.

proof:          lean/OdfModel/Props/C09.lean about lean/OdfModel/DomDoc.lean (node heap of C08 + ownerDocument +
                element_dict / _styles_dict / _styles_ooo_fix, the mutators with their index maintenance);
                lean/OdfModel/Props/C09Queries.lean: the queries are read-only (any battery of them, the tail of load())
correspondence: every history runs in lock-step on a real OpenDocumentText and on the driver drv_domdoc; after EVERY
                step the whole state is compared: links / children / attributes / ownerDocument of every node, and the
                three dictionaries (element lists in their order); and the answers of a battery of queries
oracle:         (also: 250 histories over TWO documents with nodes moved straight from one into the other, both queried)
                independent of the model: a plain traversal from doc.topnode gives the attached elements; compared
                after every step with doc.getElementsByType (multisets of object identities, each exactly once),
                element.getElementsByType (filter over the subtree), doc.getStyleByName (search of the attached styles
                under office:styles / office:automatic-styles; None when absent).  Also on documents obtained by load().
                EVERY type that occurs in the tree (office:body, office:text, office:document... included; factories are
                derived from the qualified names met in the traversal) is asked for after every step, BEFORE the
                name lookups of the battery (getStyleByName on a document without registered styles rebuilds the index).
                Packages: documents of all seven classes with embedded objects (objects in objects, an office:document
                inline in a draw:object), rendered, written, loaded (also with optional parts left out), edited after the
                load, written and loaded again; after every step every document of the family is swept in that way.
"""
import io, json
import dom_common as D

D.FACTORIES.update({'Styles': ('office', 'Styles'), 'AutomaticStyles': ('office', 'AutomaticStyles'),
                    'Generator': ('meta', 'Generator'), 'Meta': ('office', 'Meta')})
METANS = u"urn:oasis:names:tc:opendocument:xmlns:meta:1.0"
QSTYLE = (D.STYLENS, u'style')
REG_PARENTS = ((D.OFFICENS, u'styles'), (D.OFFICENS, u'automatic-styles'))
QUERY = ['P', 'Span', 'Section', 'H', 'List', 'Style', 'Styles', 'Generator', 'A', 'DrawA', 'TextTitle', 'DcTitle']
NAMESAKES = ['A', 'DrawA', 'TextTitle', 'DcTitle']       # text.A / draw.A, text.Title / dc.Title: same function name, other module
NAMES = [u'A', u'B', u'MA', u'MMA', u'Nope']
# style names that are NOT stable under the Unicode normalisation forms, each with twins that a normaliser would identify with
# it (the property speaks of "the style of that name": names are compared code point by code point).  First entry: the
# spelling that is not in composed form; the others: composed / otherwise normalised spellings, present at the same time.
NAME_FAMILIES = [
    [u'Cafe\u0301', u'Caf\u00e9', u'Cafe\u0301\u200d'],                          # base letter + combining mark / precomposed
    [u'\u212bngstro\u0308m', u'\u00c5ngstr\u00f6m', u'A\u030angstro\u0308m'],     # ANGSTROM SIGN (singleton) / composed / fully decomposed
    [u'\u2126hm', u'\u03a9hm', u'\u2126Hm'],                                       # OHM SIGN / GREEK CAPITAL OMEGA
    [u'\u1112\u1161\u11ab', u'\ud55c', u'\u1112\u1161'],                          # Hangul conjoining jamo / precomposed syllable
    [u'\ufb01gure', u'figure', u'\ufb01gure\u00b9'],                               # compatibility ligature (NFKC) / plain letters
    [u'q\u0307\u0323', u'q\u0323\u0307', u'q\u0323'],                              # combining marks out of canonical order / in order
    [u'\uf900x', u'\u8c48x', u'\uf900'],                                          # CJK compatibility ideograph / unified ideograph
    [u'\u1e9b\u0323', u'\u1e9b', u'\u017f\u0323\u0307'],                          # long s with dots: NFC / NFD / NFKC all differ
]
FIXED_QN = {QSTYLE: 1, (D.OFFICENS, u'styles'): 2, (D.OFFICENS, u'automatic-styles'): 3, (METANS, u'generator'): 4}
FIXED_KEY = {(D.STYLENS, u'name'): 1, (D.TEXTNS, u'style-name'): 2}


class Tok(object):
    def __init__(self, fixed, start):
        self.t = dict(fixed); self.n = start
    def __call__(self, x):
        if x not in self.t:
            self.t[x] = self.n; self.n += 1
        return self.t[x]


class NameTok(object):
    """token of a string: 1000 * (number of leading 'M') + id of the rest, so that tok('M'+s) = tok(s) + 1000"""
    def __init__(self):
        self.base = {}
    def __call__(self, s):
        s = u'%s' % (s,)
        j = 0
        while s.startswith(u'M'):
            s = s[1:]; j += 1
        if s not in self.base:
            self.base[s] = len(self.base) + 1
        return 1000 * j + self.base[s]


def qname_of_factory(fname):
    if fname.startswith('{'):
        return parse_qname(fname)
    return D.factory(fname)(check_grammar=False).qname


def parse_qname(fname):
    """'{namespace}local' -> (namespace, local)"""
    ns, local = fname[1:].split('}', 1)
    return (ns, local)


def probe_factory(qname):
    """a factory for ANY qualified name: the queries take a plain function that accepts check_grammar and builds an element
    (the factories of odf.office / odf.text ... are exactly that); with it every type that occurs in a tree can be asked for,
    also the rarely asked skeleton types (office:body, office:text, office:document...) and foreign elements of a loaded file"""
    from odf.element import Element
    def probe(**args):
        return Element(qname=qname, **args)
    return probe


def fac(fname):
    """factory of an op: a key of D.FACTORIES, or '{namespace}local' for any other type"""
    if fname.startswith('{'):
        return probe_factory(parse_qname(fname))
    return D.factory(fname)


def qkey(q):
    return (q[0] or u'', q[1] or u'')


def fname_of(q):
    return u'{%s}%s' % (q[0] or u'', q[1])


# skeleton types of a document: asked in lock-step with the model, one per step in turn
SKEL_QUERY = [fname_of((D.OFFICENS, l)) for l in (u'body', u'text', u'document', u'meta', u'settings', u'scripts',
                                                   u'font-face-decls', u'master-styles', u'automatic-styles', u'styles')]


class DocWorld(D.World):
    """a real OpenDocumentText whose every node has an id; `lines`/`impl` collect the lock-step protocol"""
    def __init__(self):
        D.World.__init__(self, True)
        self.qntok = Tok(FIXED_QN, 10); self.keytok = Tok(FIXED_KEY, 10); self.valtok = NameTok()
        self.lines = ['reset']; self.impl = ['ok']
        self.model_on = True
        self.skel = set()
        self.next_id = 0
        doc = self.doc
        top = doc.topnode
        self.say('new e %d %d' % (self.adopt(top), self.qntok(top.qname)), 'ok')
        self.say_attrs(0, top)
        self.say('mkdoc 0', 'ok')
        def build(parent):
            for c in parent.childNodes:
                if c.nodeType == 1:
                    i = self.adopt(c)
                    self.say('new e %d %d' % (i, self.qntok(c.qname)), 'ok')
                    self.say_attrs(i, c)
                    for t in c.childNodes:          # only meta:generator has content in a fresh document
                        if t.nodeType == 3 and not any(k.nodeType == 1 for k in c.childNodes):
                            ti = self.adopt(t)
                            self.say('addt %d %d 1 1' % (i, ti), 'ok')
                    self.say('adde %d %d 1' % (self.nid(parent), i), 'ok')
                    build(c)
        # OpenDocument.__init__ attaches each part when it is still empty, except the generator (built, then added)
        build(top)
        self.skel = set(self.nodes)
        self.meta_id = self.nid(doc.meta)
        self.say('snap', None)

    def say_attrs(self, i, node):
        for key, v in node.attributes.items():
            self.say('setns %d %d o%d' % (i, self.keytok(key), self.valtok(v)), 'ok')

    def fresh(self):
        self.next_id += 1
        return self.next_id - 1

    def adopt(self, node):
        i = self.fresh(); self.reg(i, node); return i

    def say(self, line, impl):
        if not self.model_on:
            return
        self.lines.append(line)
        self.impl.append(self.snapshot() if impl is None else impl)

    # -- request lines (qname tokens instead of factory tokens)
    def line(self, op):
        if op[0] == 'new' and op[1] == 'e':
            return 'new e %d %d' % (op[2], self.qntok(qname_of_factory(op[3])))
        return D.World.line(self, op)

    # -- full state in the driver's format
    def snapshot(self):
        doc = self.doc
        base = D.World.snapshot(self)[3:].split(' ')
        out = []
        for rec, i in zip(base, sorted(self.nodes)):
            n = self.nodes[i]
            od = getattr(n, 'ownerDocument', None)
            out.append(rec + ':' + ('0' if od is None else ('1' if od is doc else 'X')))
        ed = sorted((self.qntok(q), [self.nid(e) for e in l]) for q, l in doc.element_dict.items())
        sd = sorted((self.valtok(n), self.nid(e)) for n, e in doc._styles_dict.items())
        fx = sorted((self.valtok(a), self.valtok(b)) for a, b in doc._styles_ooo_fix.items())
        return 'ok %s | %s | %s | %s' % (
            ' '.join(out),
            ' '.join('%d=[%s]' % (q, ','.join(str(x) for x in l)) for q, l in ed),
            ' '.join('%d=%s' % a for a in sd), ' '.join('%d=%d' % a for a in fx))

    # -- one step of a history
    def do(self, op):
        """apply on the real document, record the protocol; returns the real answer"""
        k = op[0]
        doc = self.doc
        if k in ('new', 'append', 'insb', 'rm', 'adde', 'addt', 'addc', 'setns', 'rma'):
            line = self.line(op) if self.model_on else None
            ans = self.apply(op)
            if line: self.say(line, ans)
            if k == 'new' and op[1] == 'e' and ans == 'ok':
                self.say_attrs(op[2], self.nodes[op[2]])          # attributes a factory sets by default (text.A: xlink:type)
        elif k == 'bytype':
            f = fac(op[1])
            res = doc.getElementsByType(f)
            ans = 'ok [%s]' % ','.join(str(self.nid(e)) for e in res)
            self.say('bytype %d' % self.qntok(qname_of_factory(op[1])), ans)
            self.last_result = list(res)
        elif k == 'elbytype':
            f = fac(op[2])
            res = self.nodes[op[1]].getElementsByType(f)
            ans = 'ok [%s]' % ','.join(str(self.nid(e)) for e in res)
            self.say('elbytype %d %d' % (op[1], self.qntok(qname_of_factory(op[2]))), ans)
            self.last_result = list(res)
        elif k == 'style':
            try:
                res = doc.getStyleByName(op[1])
                ans = 'ok %s' % ('-' if res is None else self.nid(res))
            except Exception as e:
                res = e; ans = 'err ' + D.err_name(e)
            self.say('style %d' % self.valtok(ncname(op[1])), ans)
            self.last_result = res
        elif k == 'cache':
            try:
                if op[1] == 'clear': doc.clear_caches()
                else: doc.rebuild_caches()
                ans = 'ok'
            except Exception as e:
                ans = 'err ' + D.err_name(e)
            self.say(op[1], ans)
        elif k == 'render':
            try:
                if op[1] == 'xml': doc.xml()
                elif op[1] == 'metaxml': doc.metaxml()
                else: doc.save(io.BytesIO())
                ans = 'ok'
            except Exception as e:
                ans = 'err ' + D.err_name(e)
            for c in doc.meta.childNodes:
                if id(c) not in self.idof:
                    self.reg(op[2], c)
                    for t in c.childNodes:
                        if id(t) not in self.idof: self.reg(op[3], t)
            self.say('regen %d %d %d' % (self.meta_id, op[2], op[3]), ans)
        elif k == 'load':
            from odf.opendocument import load
            buf = io.BytesIO(); doc.save(buf); buf.seek(0)
            d2 = load(buf)
            self.model_on = False            # the reader is another layer: from here on the oracle alone
            keep = dict((i, n) for i, n in self.nodes.items() if not attached_to(n, doc.topnode))
            self.doc = d2; self.nodes = {}; self.idof = {}; self.roots = {}
            for i, n in keep.items(): self.reg(i, n)
            def walk(n):
                self.adopt(n)
                for c in n.childNodes: walk(c)
            walk(d2.topnode)
            self.skel = set(i for i in self.nodes if i not in keep and
                            (self.nodes[i].parentNode is d2.topnode or self.nodes[i] is d2.topnode or
                             self.nodes[i] is getattr(d2, 'text', None) or self.nodes[i].parentNode is d2.meta))
            self.meta_id = self.nid(d2.meta)
            ans = 'ok'
        else:
            raise ValueError(op)
        if k != 'load':
            self.say('snap', None)
        return ans


def ncname(s):
    """what make_NCName does to a lookup argument (written from its documentation: ':' and ' ' are escaped)"""
    return s.replace(u':', u'_3a_').replace(u' ', u'_20_')


def attached_to(n, top):
    k = 0
    while n is not None and k < 10000:
        if n is top: return True
        n = n.parentNode; k += 1
    return False


# ---------------------------------------------------------------------------------------------
# the oracle: a traversal from the top node
def attached_elements(doc):
    out = []
    def walk(n, depth):
        if depth > 200: return
        if n.nodeType == 1:
            out.append(n)
            for c in n.childNodes: walk(c, depth + 1)
    walk(doc.topnode, 0)
    return out

def subtree_elements(e):
    out = []
    def walk(n, depth):
        if depth > 200: return
        if n.nodeType == 1:
            out.append(n)
            for c in n.childNodes: walk(c, depth + 1)
    walk(e, 0)
    return out

def multiset(nodes):
    return sorted(id(n) for n in nodes)


def agree(res, want, top):
    """the answer of a document-level query against the attached elements of that type: every one exactly once, nothing
    else.  Only the top node itself (doc.topnode, never queried before) may be listed or left out: the document indexes the
    elements BELOW its top node when they are attached; the top node enters the index only through a rebuild from the top
    (lean: Coherent.mem_iff speaks of x != top, Coherent.top_mem of the top)."""
    a = multiset(res)
    if a == multiset(want):
        return True
    return any(e is top for e in want) and a == multiset([e for e in want if e is not top])


def sweep_document(doc, weak=False, element_level=True):
    """the property for EVERY type: each qualified name that occurs in the tree below doc.topnode (and each one the index
    still knows of) is asked for with doc.getElementsByType and compared with the traversal; with element_level also
    doc.topnode.getElementsByType.  Read-only, and run before any name lookup (getStyleByName on a document without
    registered styles rebuilds the whole index and would repair what is to be observed).
    Returns None or (signature, detail)."""
    top = doc.topnode
    att = attached_elements(doc)
    by = {}
    for e in att:
        by.setdefault(e.qname, []).append(e)
    asked = set(by)
    for q in list(getattr(doc, 'element_dict', None) or {}):       # only WHICH types are asked; what is expected comes from the tree
        if isinstance(q, tuple) and len(q) == 2: asked.add(q)
    for q in sorted(asked, key=qkey):
        want = by.get(q, [])
        res = list(doc.getElementsByType(probe_factory(q)))
        if weak:
            ok = len(set(id(e) for e in res)) == len(res) and all(any(e is x for x in want) for e in res)
        else:
            ok = agree(res, want, top)
        if not ok:
            stray = [e for e in res if not any(e is x for x in want)]
            return ('index-bytype-every-type', 'doc.getElementsByType(<%s>) returns %d element(s) (%d of them not attached / not of that type, %d distinct), '
                    'the tree below doc.topnode holds %d' % (q[1], len(res), len(stray), len(set(id(e) for e in res)), len(want)))
        if element_level and q in by:
            sub = list(top.getElementsByType(probe_factory(q)))
            if multiset(sub) != multiset(want):
                return ('index-element-every-type', 'doc.topnode.getElementsByType(<%s>) returns %d element(s), the tree holds %d'
                        % (q[1], len(sub), len(want)))
    return None


class Oracle(object):
    def __init__(self, w):
        self.w = w
        self.failed = None
        self.renamed = False       # a registered style was renamed earlier in this history
        self.dupnames = False      # two attached styles bore the same name at some point
        self.cleared = False       # doc.clear_caches() was called and no doc.rebuild_caches() since: the index may lag

    def fail(self, sig, idx, detail):
        if self.failed is None:
            self.failed = (sig, idx, detail)

    def style_sig(self):
        return 'style-lookup'

    def registered_styles(self):
        res = {}
        for e in attached_elements(self.w.doc):
            if e.qname == QSTYLE and e.parentNode is not None and e.parentNode.qname in REG_PARENTS:
                nm = e.attributes.get((D.STYLENS, u'name'))
                if nm is not None:
                    res.setdefault(nm, []).append(e)
        return res

    def note_state(self):
        if any(len(v) > 1 for v in self.registered_styles().values()):
            self.dupnames = True

    def check_bytype(self, idx, fname, res):
        q = qname_of_factory(fname)
        want = [e for e in attached_elements(self.w.doc) if e.qname == q]
        if self.cleared:
            # after the public clear_caches() the index is legitimately incomplete until rebuild_caches(): what it
            # answers must still be attached elements of that type, each once
            ok = len(set(id(e) for e in res)) == len(res) and all(any(e is x for x in want) for e in res)
            if not ok:
                self.fail('index-bytype-after-clear', idx, 'doc.getElementsByType(%s) = %s, attached in the tree: %s'
                          % (fname, [self.w.nid(e) for e in res], [self.w.nid(e) for e in want]))
            return
        if not agree(res, want, self.w.doc.topnode):
            w = self.w
            self.fail('index-bytype', idx, 'doc.getElementsByType(%s) = %s, attached in the tree: %s'
                      % (fname, sorted(str(w.nid(e)) for e in res), sorted(str(w.nid(e)) for e in want)))

    def sweep(self, idx, when):
        """every type that occurs in the document, before the battery (whose name lookups may rebuild the index)"""
        if self.cleared or self.failed:
            return            # after the public clear_caches() the index is legitimately incomplete; a query on the emptied
                              # index would rebuild it behind the model's back
        f = sweep_document(self.w.doc, element_level=(idx % 4 == 0 or when == 'load'))
        if f:
            self.fail(f[0], idx, '%s: %s' % (when, f[1]))

    def check_elbytype(self, idx, i, fname, res):
        q = qname_of_factory(fname)
        want = [e for e in subtree_elements(self.w.nodes[i]) if e.qname == q]
        if multiset(res) != multiset(want):
            w = self.w
            self.fail('index-element', idx, 'node %d .getElementsByType(%s) = %s, in its subtree: %s'
                      % (i, fname, [w.nid(e) for e in res], [w.nid(e) for e in want]))

    def check_style(self, idx, name, res):
        want = self.registered_styles().get(ncname(name), [])
        w = self.w
        if isinstance(res, Exception):
            self.fail('style-lookup-raises', idx, 'getStyleByName(%r) raised %r' % (name, res)); return
        if self.cleared and res is None:
            return
        if not want and res is not None:
            self.fail(self.style_sig(), idx, 'getStyleByName(%r) = node %s (name %r, %s), but no attached style has that name'
                      % (name, w.nid(res), res.attributes.get((D.STYLENS, u'name')),
                         'attached' if attached_to(res, w.doc.topnode) else 'DETACHED'))
        elif want and not any(res is e for e in want):
            self.fail(self.style_sig(), idx, 'getStyleByName(%r) = %s, but the attached style(s) of that name: %s'
                      % (name, None if res is None else w.nid(res), [w.nid(e) for e in want]))


# ---------------------------------------------------------------------------------------------
class History(object):
    def __init__(self, rng, family=None):
        self.rng = rng
        self.w = DocWorld()
        self.orc = Oracle(self.w)
        self.ops = []
        self.fname = {}
        self.loaded = False
        # the names of this history: (a, b, c); a and b are borne by styles from the start, c comes in by renaming.
        # family None: the plain names A, B, C; otherwise a family of NAME_FAMILIES (spellings a normaliser would identify)
        self.family = family
        self.abc = [u'A', u'B', u'C'] if family is None else list(NAME_FAMILIES[family])
        a, b, c = self.abc
        self.names = NAMES if family is None else [a, b, u'M' + a, c, u'MM' + a, u'Nope']
        if family is not None:
            self.ops.append(['names', family])       # pseudo-op at the head of the recorded history (replay reads it)

    # ---- one op + the battery of queries, all checked
    def step(self, op, battery=True):
        w = self.w; orc = self.orc
        idx = len(self.ops)
        self.ops.append(op)
        if (op[0] == 'setns' and op[3] == u'name') or op[0] == 'rma':
            e = w.nodes[op[1]]
            if e.qname == QSTYLE and attached_to(e, w.doc.topnode) and e.parentNode.qname in REG_PARENTS:
                orc.renamed = True
        legal = self.legal(op)
        if op[0] == 'cache':
            orc.cleared = (op[1] == 'clear')
            if op[1] == 'clear': battery = False          # let the next edit meet the emptied index
        ans = w.do(op)
        if legal and not ans.startswith('ok'):
            orc.fail('legal-edit-refused', idx, '%s answered %s' % (op, ans))
        if ans.startswith('err Unexpected'):
            orc.fail('unexpected-exception', idx, '%s answered %s' % (op, ans))
        orc.note_state()
        self.check_query(idx, op)
        if op[0] not in ('new', 'cache'):
            orc.sweep(idx, 'load' if op[0] == 'load' else 'after %s' % op[0])
        if battery and not orc.failed:
            core = [f for f in QUERY if f not in NAMESAKES]
            for f in core + [NAMESAKES[idx % 4], NAMESAKES[(idx + 1) % 4], SKEL_QUERY[idx % len(SKEL_QUERY)]]:
                q = ['bytype', f]; w.do(q); self.check_query(idx, q)
            q = ['elbytype', w.nid(w.doc.topnode), SKEL_QUERY[(idx + 1) % len(SKEL_QUERY)]]; w.do(q); self.check_query(idx, q)
            for n in (self.names if self.family is None else self.names[:4] + [self.names[4 + idx % 2]]):
                q = ['style', n]; w.do(q); self.check_query(idx, q)
            els = [i for i in sorted(w.nodes) if w.nodes[i].nodeType == 1]
            for i in (els[idx % len(els)], els[(7 * idx + 3) % len(els)]):
                for f in ('P', 'Span', NAMESAKES[idx % 2]):
                    q = ['elbytype', i, f]; w.do(q); self.check_query(idx, q)
                for f in NAMESAKES + ['P']:
                    got = bool(w.nodes[i].isInstanceOf(D.factory(f)))
                    if got != (w.nodes[i].qname == qname_of_factory(f)):
                        orc.fail('isinstanceof', idx, 'node %d (%s) .isInstanceOf(%s.%s) = %s' % (
                            i, w.nodes[i].qname[1], D.FACTORIES[f][0], D.FACTORIES[f][1], got))
        return ans

    def check_query(self, idx, q):
        w = self.w; orc = self.orc
        if q[0] == 'bytype': orc.check_bytype(idx, q[1], w.last_result)
        elif q[0] == 'elbytype': orc.check_elbytype(idx, q[1], q[2], w.last_result)
        elif q[0] == 'style': orc.check_style(idx, q[1], w.last_result)

    def legal(self, op):
        """tree edits that the DOM must accept (text nodes move like any other node)"""
        w = self.w
        if op[0] in ('append', 'insb'):
            p, c = w.nodes[op[1]], w.nodes[op[2]]
            if p.nodeType != 1: return False
            if op[0] == 'insb' and op[3] is not None and not any(k is w.nodes[op[3]] for k in p.childNodes): return False
            return True
        if op[0] == 'rm':
            p = w.nodes[op[1]]
            return p.nodeType == 1 and any(k is w.nodes[op[2]] for k in p.childNodes)
        if op[0] == 'rma':            # removing an attribute the element has
            return (D.STYLENS, u'name') in w.nodes[op[1]].attributes
        return op[0] in ('new', 'render', 'load', 'bytype', 'elbytype', 'style', 'setns', 'cache')

    # ---- generation
    def prologue(self):
        w = self.w
        for f in ['P', 'P', 'Span', 'Span', 'Section', 'H', 'List', 'ListItem', 'Styles', 'AutomaticStyles', 'Style', 'Style', 'Style', 'Style', 'A', 'TextTitle']:
            i = w.fresh(); self.fname[i] = f
            self.step(['new', 'e', i, f], battery=False)
        styles = [i for i in sorted(self.fname) if self.fname[i] == 'Style']
        a, b, c = self.abc
        for i, nm in zip(styles, [a, b, a, u'M' + a]):
            self.step(['setns', i, D.STYLENS, u'name', nm], battery=False)
        # two more styles: one that never gets a style:name (what Style(check_grammar=False) and load() of a file without the
        # attribute give), one whose name is the empty string.  Ids follow the 16 elements above.
        for nm in (None, u''):
            i = w.fresh(); self.fname[i] = 'Style'
            self.step(['new', 'e', i, 'Style'], battery=False)
            if nm is not None:
                self.step(['setns', i, D.STYLENS, u'name', nm], battery=False)
        for k, data in (('t', None), ('t', u''), ('c', u'')):       # one ordinary, one empty text node, an empty CDATA
            self.step(['new', k, w.fresh(), data], battery=False)

    def movable(self):
        w = self.w
        return [i for i in sorted(w.nodes) if i not in w.skel]

    def parents(self):
        w = self.w
        d = w.doc
        pref = [w.nid(x) for x in (getattr(d, 'text', None), d.styles, d.automaticstyles, getattr(d, 'text', None), d.styles, d.body)]
        pref = [i for i in pref if isinstance(i, int)]
        return pref + [i for i in self.movable() if w.nodes[i].nodeType == 1]

    def random_op(self):
        r = self.rng; w = self.w
        for _ in range(40):
            k = r.choice(['append'] * 4 + ['insb'] * 4 + ['rm'] * 4 + ['adde'] * 2 + ['addstyle'] * 3 + ['attach'] * 3 + ['container'] * 3 +
                         ['addt', 'addc', 'rename', 'render', 'query', 'query', 'load', 'rmbad', 'textparent', 'cache'])
            P = self.parents(); M = self.movable()
            if k == 'addstyle':
                S = [i for i in M if w.nodes[i].nodeType == 1 and w.nodes[i].qname == QSTYLE]
                p = w.nid(r.choice([w.doc.styles, w.doc.automaticstyles]))
                c = r.choice(S)
                ks = [w.nid(x) for x in w.nodes[p].childNodes]
                return ['insb', p, c, r.choice(ks)] if ks and r.random() < 0.3 and c not in ks else ['append', p, c]
            if k == 'container':
                # a free office:styles / office:automatic-styles element as a subtree of styles: filled, attached as a
                # whole, removed as a whole, re-attached
                C = [i for i in M if w.nodes[i].nodeType == 1 and w.nodes[i].qname in REG_PARENTS]
                S = [i for i in M if w.nodes[i].nodeType == 1 and w.nodes[i].qname == QSTYLE]
                if not C: continue
                c = r.choice(C); cn = w.nodes[c]
                what = r.random()
                if what < 0.4 and S:
                    st = r.choice(S)
                    if w.is_ancestor_or_self(st, c): continue
                    return ['append', c, st]
                if cn.parentNode is None:
                    A = [p for p in P if attached_to(w.nodes[p], w.doc.topnode) and not w.is_ancestor_or_self(c, p)]
                    if A: return ['append', r.choice(A), c]
                else:
                    return ['rm', w.nid(cn.parentNode), c]
                continue
            if k == 'attach':
                A = [p for p in P if attached_to(w.nodes[p], w.doc.topnode)]
                p = r.choice(A); c = r.choice(M)
                if w.is_ancestor_or_self(c, p): continue
                return ['append', p, c]
            if k in ('append', 'insb', 'adde'):
                p = r.choice(P); c = r.choice(M)
                if w.is_ancestor_or_self(c, p): continue
                if k == 'adde':
                    if w.nodes[c].nodeType != 1 or not w.allowed_child(p, c): continue
                    return ['adde', p, c]
                if k == 'append': return ['append', p, c]
                ks = [w.nid(x) for x in w.nodes[p].childNodes]
                return ['insb', p, c, r.choice(ks) if ks and r.random() < 0.75 else None]
            if k == 'rm':
                cand = [(p, w.nid(x)) for p in set(P) for x in w.nodes[p].childNodes if w.nid(x) in M]
                if cand:
                    p, c = r.choice(sorted(cand)); return ['rm', p, c]
            if k == 'rmbad':
                p = r.choice(P); c = r.choice(M)
                if not any(x is w.nodes[c] for x in w.nodes[p].childNodes): return ['rm', p, c]
            if k == 'textparent':
                T = [i for i in M if w.nodes[i].nodeType != 1]
                if T: return ['append', r.choice(T), r.choice(M)]
            if k in ('addt', 'addc'):
                cand = [p for p in P if w.allows_text(p)]
                if cand: return [k, r.choice(cand), w.fresh(), u'txt' if k == 'addt' else r.choice([u'cd', u''])]
            if k == 'rename':
                S = [i for i in M if w.nodes[i].nodeType == 1 and w.nodes[i].qname == QSTYLE]
                if S and r.random() < 0.5:
                    if r.random() < 0.2: return ['rma', r.choice(S), 'name']          # removeAttribute('name'): the style loses its name
                    return ['setns', r.choice(S), D.STYLENS, u'name', r.choice(self.abc + ([u''] if r.random() < 0.3 else []))]
            if k == 'cache':
                return ['cache', r.choice(['clear', 'clear', 'rebuild'])]
            if k == 'render':
                return ['render', r.choice(['xml', 'metaxml', 'save']), w.fresh(), w.fresh()]
            if k == 'query':
                return r.choice([['bytype', r.choice(QUERY)], ['style', r.choice(self.names + [u'my style', u''])]])
            if k == 'load' and not self.loaded and r.random() < 0.25:
                self.loaded = True
                return ['load']
        return ['bytype', 'P']


def replay_history(ops):
    fam = None
    if ops and ops[0][0] == 'names':
        fam = ops[0][1]; ops = ops[1:]
    h = History(None, family=fam)
    for op in ops:
        if op[0] == 'load': h.loaded = True
        if op[0] == 'new' and op[1] == 'e': h.fname[op[2]] = op[3]
        while h.w.next_id <= max([x for x in op[1:] if isinstance(x, int)] + [-1]):
            h.w.next_id += 1
        h.step(op, battery=(op[0] not in ('new',)))
        if h.orc.failed: break
    return h


def shrink(ops, sig):
    cur = list(ops)
    changed = True
    while changed:
        changed = False
        for i in range(len(cur) - 1, -1, -1):
            if cur[i][0] in ('new', 'names'): continue
            cand = cur[:i] + cur[i + 1:]
            try:
                h = replay_history(cand)
            except Exception:
                continue
            if h.orc.failed and h.orc.failed[0] == sig:
                cur = cand[:h.orc.failed[1] + 1]; changed = True
                break
    return cur


def report(chk, h):
    sig, idx, detail = h.orc.failed
    ops = h.ops[:idx + 1]
    if not any(k['sig'] == sig for k in chk.known) and not any(f['sig'] == sig for f in chk.failures):
        try:
            ops = shrink(ops, sig)
        except Exception:
            pass
    chk.fail(sig, {'ops': ops}, detail)


def first_diff(drv, h):
    w = h.w
    model = drv.batch(w.lines)
    for j, (x, y) in enumerate(zip(w.impl, model)):
        if x != y:
            return j, x, y
    return None


def shrink_corr(drv, ops):
    """smallest history (single ops dropped) on which code and model still end in different states"""
    cur = list(ops)
    changed = True
    while changed:
        changed = False
        for i in range(len(cur) - 1, -1, -1):
            if cur[i][0] in ('new', 'names'): continue
            cand = cur[:i] + cur[i + 1:]
            try:
                h = replay_history(cand)
                if h.orc.failed or not h.w.model_on: continue
                d = first_diff(drv, h)
            except Exception:
                continue
            if d is not None:
                cur = cand; changed = True
                break
    return cur


def correspond(chk, drv, h):
    w = h.w
    chk.corr(len(w.lines) // 2)
    d = first_diff(drv, h)
    if d is None:
        return True
    j, x, y = d
    ops = h.ops
    if not chk.corr_diffs:                      # the first disagreement of a run is reduced to a short history
        try:
            ops = shrink_corr(drv, [o for o in h.ops if o[0] != 'load'])
            h2 = replay_history(ops)
            d2 = first_diff(drv, h2)
            if d2 is not None:
                j, x, y = d2; w = h2.w
            else:
                ops = h.ops
        except Exception:
            ops = h.ops
    chk.corr_diff({'ops': ops, 'line_index': j}, x[:1500], y[:1500],
                  'answer / full state after request %d (%s)' % (j, w.lines[j]))
    return False


def exhaustive(chk, drv, depth, cap):
    """every tree edit in every distinct state (full state incl. the dictionaries) of a small universe
    attached to a document: doc.text, doc.styles as fixed parents; a Section, a P, two styles named A, one text node"""
    def fresh_history(path):
        h = History(None)
        w = h.w
        ids = {}
        for nm, f in [('S', 'Section'), ('P', 'P'), ('X', 'Style'), ('Y', 'Style')]:
            i = w.fresh(); ids[nm] = i; h.fname[i] = f
            h.step(['new', 'e', i, f], battery=False)
        h.step(['setns', ids['X'], D.STYLENS, u'name', u'A'], battery=False)
        h.step(['setns', ids['Y'], D.STYLENS, u'name', u'A'], battery=False)
        i = w.fresh(); ids['T'] = i
        h.step(['new', 't', i, None], battery=False)
        ids['text'] = w.nid(w.doc.text); ids['styles'] = w.nid(w.doc.styles)
        for op in path:
            h.step(op, battery=False)
        return h, ids
    h0, ids = fresh_history([])
    parents = [ids['text'], ids['styles'], ids['S'], ids['P']]
    mov = [ids['S'], ids['P'], ids['X'], ids['Y'], ids['T']]
    seen = {h0.w.snapshot(): []}
    frontier = [[]]
    n = 0
    for d in range(depth + 1):
        nxt = []
        for path in frontier:
            base, _ = fresh_history(path)
            w = base.w
            alphabet = []
            for p in parents:
                ks = [w.nid(x) for x in w.nodes[p].childNodes]
                for c in mov:
                    if w.is_ancestor_or_self(c, p): continue
                    alphabet.append(['append', p, c])
                    for rf in ks:
                        alphabet.append(['insb', p, c, rf])
                for c in ks:
                    if c in mov: alphabet.append(['rm', p, c])
            for op in alphabet:
                h, _ = fresh_history(path)
                h.step(op, battery=True)
                n += 1
                chk.case(('x', json.dumps(path + [op])), nontrivial=True); chk.count('exhaustive_' + op[0])
                correspond(chk, drv, h)
                if h.orc.failed:
                    report(chk, h); continue
                if d < depth and len(seen) < cap:
                    key = h.w.snapshot()
                    if key not in seen:
                        seen[key] = path + [op]; nxt.append(path + [op])
        if not nxt: break
        frontier = nxt
    return len(seen), n


# ---------------------------------------------------------------------------------------------
# two documents in one process: nodes and subtrees moved straight from one into the other (oracle only)
class TwoDocs(object):
    FACS = ['P', 'P', 'Span', 'Span', 'Section', 'Style', 'Style']
    QUERY2 = ['P', 'Span', 'Section', 'Style']

    def __init__(self):
        from odf.opendocument import OpenDocumentText
        from odf.element import Text
        self.docs = [OpenDocumentText(), OpenDocumentText()]
        self.nodes = {}
        for d in self.docs:
            for n in (d.text, d.styles, d.automaticstyles):
                self.nodes[len(self.nodes)] = n
        self.fixed = len(self.nodes)
        for f in self.FACS:
            self.nodes[len(self.nodes)] = D.factory(f)(check_grammar=False)
        styles = [i for i in self.nodes if i >= self.fixed and self.nodes[i].qname == QSTYLE]
        for i, nm in zip(styles, [u'A', u'B']):
            self.nodes[i].setAttrNS(D.STYLENS, u'name', nm)
        for data in (u'txt', u''):
            self.nodes[len(self.nodes)] = Text(data)
        self.failed = None

    def nid(self, n):
        for i, x in self.nodes.items():
            if x is n: return i
        return 'X'

    def movable(self):
        return [i for i in sorted(self.nodes) if i >= self.fixed]

    def is_anc_or_self(self, a, x):
        n = self.nodes[x]; k = 0
        while n is not None and k < 1000:
            if n is self.nodes[a]: return True
            n = n.parentNode; k += 1
        return False

    def random_op(self, r):
        N = self.nodes
        for _ in range(40):
            k = r.choice(['append'] * 4 + ['insb'] * 3 + ['adde'] * 2 + ['rm'] * 2)
            P = [i for i in sorted(N) if N[i].nodeType == 1]
            p = r.choice(P[:self.fixed] * 3 + P); c = r.choice(self.movable())
            if k == 'rm':
                ks = [self.nid(x) for x in N[p].childNodes if self.nid(x) in self.movable()]
                if ks: return ['rm', p, r.choice(ks)]
                continue
            if self.is_anc_or_self(c, p): continue
            if k == 'append': return ['append', p, c]
            if k == 'adde':
                if N[c].nodeType == 1: return ['adde', p, c]
                continue
            ks = [self.nid(x) for x in N[p].childNodes]
            return ['insb', p, c, r.choice(ks) if ks and r.random() < 0.7 else None]
        return ['append', 0, self.fixed]

    def apply(self, op):
        N = self.nodes
        try:
            if op[0] == 'append': N[op[1]].appendChild(N[op[2]])
            elif op[0] == 'insb': N[op[1]].insertBefore(N[op[2]], None if op[3] is None else N[op[3]])
            elif op[0] == 'adde': N[op[1]].addElement(N[op[2]], check_grammar=False)
            elif op[0] == 'rm': N[op[1]].removeChild(N[op[2]])
            return 'ok'
        except RecursionError:
            raise
        except Exception as e:
            return 'err ' + D.err_name(e)

    def check(self, idx, op, ans):
        if ans != 'ok':
            self.failed = ('legal-edit-refused', idx, '%s answered %s' % (op, ans)); return
        for k, d in enumerate(self.docs):                        # every type that occurs, before any name lookup
            f = sweep_document(d)
            if f:
                self.failed = (f[0] + '-two-documents', idx, 'after %s: document %d: %s' % (op, k, f[1]))
                return
        for k, d in enumerate(self.docs):
            att = attached_elements(d)
            for f in self.QUERY2:
                q = qname_of_factory(f)
                got = d.getElementsByType(D.factory(f))
                want = [e for e in att if e.qname == q]
                if multiset(got) != multiset(want):
                    self.failed = ('index-bytype-two-documents', idx,
                                   'after %s: document %d .getElementsByType(%s) = %s, attached in its tree: %s'
                                   % (op, k, f, sorted(str(self.nid(e)) for e in got), sorted(str(self.nid(e)) for e in want)))
                    return
            reg = {}
            for e in att:
                if e.qname == QSTYLE and e.parentNode is not None and e.parentNode.qname in REG_PARENTS:
                    reg.setdefault(e.attributes.get((D.STYLENS, u'name')), []).append(e)
            for nm in (u'A', u'B', u'MA', u'Nope'):
                res = d.getStyleByName(nm)
                want = reg.get(nm, [])
                if (not want and res is not None) or (want and not any(res is e for e in want)):
                    self.failed = ('style-lookup-two-documents', idx, 'after %s: document %d .getStyleByName(%r) = %s, styles of that name in its tree: %s'
                                   % (op, k, nm, None if res is None else self.nid(res), [self.nid(e) for e in want]))
                    return
        for i in self.movable():
            n = self.nodes[i]
            if n.nodeType != 1: continue
            home = [d for d in self.docs if attached_to(n, d.topnode)]
            od = getattr(n, 'ownerDocument', None)
            if (home and od is not home[0]) or (not home and od is not None):
                self.failed = ('owner-two-documents', idx, 'after %s: node %d is %s but its ownerDocument is %s'
                               % (op, i, 'in document %d' % self.docs.index(home[0]) if home else 'detached',
                                  'none' if od is None else 'document %d' % self.docs.index(od)))
                return


def run_twodocs(ops):
    t = TwoDocs()
    for idx, op in enumerate(ops):
        t.check(idx, op, t.apply(op))
        if t.failed: break
    return t


def twodocs_histories(chk, n):
    for s in range(n):
        t = TwoDocs(); ops = []
        for idx in range(chk.rng.randint(4, 20)):
            op = t.random_op(chk.rng); ops.append(op)
            t.check(idx, op, t.apply(op))
            chk.count('twodocs_op_' + op[0])
            if t.failed: break
        chk.case(('twodocs', json.dumps(ops)), nontrivial=True); chk.count('twodocs_history')
        if t.failed:
            sig = t.failed[0]; cur = ops[:t.failed[1] + 1]
            if not any(f['sig'] == sig for f in chk.failures):
                changed = True
                while changed:
                    changed = False
                    for i in range(len(cur) - 2, -1, -1):
                        cand = cur[:i] + cur[i + 1:]
                        try:
                            t2 = run_twodocs(cand)
                        except Exception:
                            continue
                        if t2.failed and t2.failed[0] == sig:
                            cur = cand[:t2.failed[1] + 1]; changed = True; break
            chk.fail(sig, {'twodocs': cur}, run_twodocs(cur).failed[2] if run_twodocs(cur).failed else t.failed[2])


# ---------------------------------------------------------------------------------------------
# packages: documents of every class with embedded objects (objects inside objects), built, rendered, saved, loaded
# (also with parts of the package left out), edited after the load, saved and loaded again (oracle only: the reader and
# the writer are other layers).  After every step EVERY document of the family - the document and all its objects - is
# swept: every type that occurs in its tree is asked for.  Name lookups are steps of their own, so that the sweep after
# a load sees the index as load() left it.
PK_KINDS = {'text': 'OpenDocumentText', 'textmaster': 'OpenDocumentTextMaster', 'spreadsheet': 'OpenDocumentSpreadsheet',
            'presentation': 'OpenDocumentPresentation', 'drawing': 'OpenDocumentDrawing', 'chart': 'OpenDocumentChart',
            'image': 'OpenDocumentImage'}
PK_FACS = {'P': ('text', 'P'), 'Span': ('text', 'Span'), 'H': ('text', 'H'), 'Section': ('text', 'Section'), 'List': ('text', 'List'),
           'ListItem': ('text', 'ListItem'), 'A': ('text', 'A'), 'DrawA': ('draw', 'A'), 'Table': ('table', 'Table'),
           'TableRow': ('table', 'TableRow'), 'TableCell': ('table', 'TableCell'), 'Frame': ('draw', 'Frame'), 'G': ('draw', 'G'),
           'Page': ('draw', 'Page'), 'Chart': ('chart', 'Chart'), 'PlotArea': ('chart', 'PlotArea'), 'ChartTitle': ('chart', 'Title'),
           'Object': ('draw', 'Object'),
           # types of the document skeleton as ordinary content further down (draw:object may hold a whole office:document)
           'Document': ('office', 'Document'), 'Body': ('office', 'Body'), 'OfficeText': ('office', 'Text'), 'Styles': ('office', 'Styles'),
           'Style': ('style', 'Style'), 'Meta': ('office', 'Meta')}
PK_TEXTY = ('P', 'Span', 'H', 'A')
PK_RENDER = ['xml', 'contentxml', 'stylesxml', 'metaxml', 'settingsxml', 'write', 'save', 'mediatype']
PK_PARTS = [u'styles.xml', u'meta.xml', u'settings.xml']
PK_NAMES = [u'A', u'B', u'MA', u'P1', u'Nope', u'my style']
# style names of a package: the four plain ones, spellings that a Unicode normaliser would identify (both present at the same
# time), and None = a style:style without style:name (Style(check_grammar=False); after a load: a file that lacks the attribute)
PK_STYLE_NAMES = PK_NAMES[:4] + [NAME_FAMILIES[0][0], NAME_FAMILIES[0][1], NAME_FAMILIES[1][0], NAME_FAMILIES[1][1],
                                NAME_FAMILIES[3][0], NAME_FAMILIES[3][1], None, None, u'']
PK_LOOKUP = PK_NAMES + [n for f in NAME_FAMILIES[:4] for n in f[:2]] + [u'']


def pk_factory(name):
    import importlib
    m, f = PK_FACS[name]
    return getattr(importlib.import_module('odf.' + m), f)


def pk_random_tree(r, budget, depth=0):
    out = []
    while budget[0] > 0 and r.random() < (0.85 if depth == 0 else 0.55):
        budget[0] -= 1
        f = r.choice(sorted(PK_FACS) + ['P', 'P', 'Span', 'Frame', '@object', '@object', '@inline'])
        if f in ('@object', '@inline'):
            out.append([f, r.randint(0, 3)])
        else:
            out.append([f, pk_random_tree(r, budget, depth + 1) if depth < 3 else []])
    return out


def pk_random_spec(r, depth=0):
    spec = {'kind': r.choice(sorted(PK_KINDS)), 'tree': pk_random_tree(r, [r.randint(0, 9)]),
            'styles': [[r.choice(['styles', 'automatic']), r.choice(PK_STYLE_NAMES)] for _ in range(r.choice([0, 0, 1, 2, 3, 4]))],
            'objects': []}
    if depth < 2:
        for _ in range(r.choice([0, 1, 1, 2] if depth == 0 else [0, 0, 1])):
            spec['objects'].append(pk_random_spec(r, depth + 1))
    return spec


def pk_random_steps(r):
    steps = []
    def some(n):
        for _ in range(n):
            k = r.choice(['render', 'render', 'edit', 'edit', 'edit', 'lookup'])
            if k == 'render': steps.append(['render', r.choice(PK_RENDER), r.randint(0, 5)])
            elif k == 'lookup': steps.append(['lookup', r.choice(PK_LOOKUP), r.randint(0, 5)])
            else: steps.append(['edit', r.choice(['add', 'add', 'rm', 'move', 'insb', 'addobject']), r.randint(0, 5), r.randint(0, 999), r.randint(0, 999)])
    some(r.randint(0, 3))
    for _ in range(r.choice([1, 1, 2, 3])):
        steps.append(['reload', [x for x in PK_PARTS if r.random() < 0.2]])
        some(r.randint(0, 4))
    return steps


class Package(object):
    def __init__(self, spec):
        self.failed = None
        self.step_index = -1
        self.keep = []               # removed nodes stay alive (object identities are compared)
        self.doc = self.build(spec)

    def build(self, spec):
        import odf.opendocument as od
        from odf import style
        doc = getattr(od, PK_KINDS[spec['kind']])()
        subs = [self.build(s) for s in spec['objects']]
        hrefs = [doc.addObject(s) for s in subs]
        for where, name in spec['styles']:
            if name is None:
                st = style.Style(family=u'paragraph', check_grammar=False)
            else:
                st = style.Style(name=name, family=u'paragraph')
            (doc.styles if where == 'styles' else doc.automaticstyles).addElement(st)
        self.fill(doc.body.firstChild, spec['tree'], hrefs)
        return doc

    def fill(self, parent, tree, hrefs):
        for f, sub in tree:
            if f == '@object':
                fr = pk_factory('Frame')(check_grammar=False)
                parent.addElement(fr, check_grammar=False)
                ob = pk_factory('Object')(check_grammar=False)
                if hrefs: ob.setAttrNS(u'http://www.w3.org/1999/xlink', u'href', hrefs[sub % len(hrefs)])
                fr.addElement(ob, check_grammar=False)
            elif f == '@inline':
                n = parent
                for g in ('Frame', 'Object', 'Document', 'Body', 'OfficeText', 'P'):
                    e = pk_factory(g)(check_grammar=False)
                    n.addElement(e, check_grammar=False); n = e
                n.addText(u'inline %d' % sub, check_grammar=False)
            else:
                e = pk_factory(f)(check_grammar=False)
                if f == 'Style': e.setAttrNS(D.STYLENS, u'name', u'A')
                parent.addElement(e, check_grammar=False)
                if f in PK_TEXTY: e.addText(u'x', check_grammar=False)
                self.fill(e, sub, hrefs)

    # ---- the family of a document: itself and its objects, by position
    def family(self):
        out = []
        def walk(d, path, depth):
            out.append((path, d))
            if depth > 6: return
            for k, c in enumerate(getattr(d, 'childobjects', [])):
                walk(c, path + [k], depth + 1)
        walk(self.doc, [], 0)
        return out

    def fail(self, sig, detail):
        if self.failed is None:
            self.failed = (sig, self.step_index, detail)

    def sweep(self, when):
        for path, d in self.family():
            f = sweep_document(d)
            if f:
                self.fail(f[0] + '-package', '%s, %s: %s' % (when, 'the document' if not path else 'embedded object %s'
                                                              % '/'.join(str(k + 1) for k in path), f[1]))
                return

    def pick(self, k):
        fam = self.family()
        return fam[k % len(fam)]

    def step(self, idx, st):
        self.step_index = idx
        k = st[0]
        if k == 'render':
            path, d = self.pick(st[2])
            what = st[1]
            if what == 'xml': d.xml()
            elif what == 'write': d.write(io.BytesIO())
            elif what == 'save': self.doc.save(io.BytesIO())
            elif what == 'mediatype': d.getMediaType()
            else: getattr(d, what)()
        elif k == 'lookup':
            path, d = self.pick(st[2])
            reg = {}
            for e in attached_elements(d):
                if e.qname == QSTYLE and e.parentNode is not None and e.parentNode.qname in REG_PARENTS:
                    reg.setdefault(e.attributes.get((D.STYLENS, u'name')), []).append(e)
            for nm in [st[1]] + sorted(n for n in reg if n is not None):
                res = d.getStyleByName(nm)
                want = reg.get(ncname(nm), [])
                if (not want and res is not None) or (want and not any(res is e for e in want)):
                    self.fail('style-lookup-package', 'document %s .getStyleByName(%r) = %s, attached styles of that name: %d'
                              % (path, nm, 'None' if res is None else 'a style named %r, %s' % (
                                  res.attributes.get((D.STYLENS, u'name')), 'attached' if attached_to(res, d.topnode) else 'DETACHED'), len(want)))
                    return
        elif k == 'edit':
            path, d = self.pick(st[2])
            els = attached_elements(d)
            free = [e for e in els if e.parentNode is not None and e.parentNode is not d.topnode and e.parentNode is not d.body]
            a = els[st[3] % len(els)]
            # styles (with and without a name) are preferred targets of every other removal / move
            sty = [e for e in free if e.qname == QSTYLE]
            if st[4] % 2 == 1 and sty and st[1] in ('rm', 'move', 'insb'):
                free = sty
            try:
                if st[1] == 'add':
                    e = pk_factory(['P', 'Span', 'Body', 'Style', 'Frame'][st[4] % 5])(check_grammar=False)
                    a.addElement(e, check_grammar=False)
                elif st[1] == 'addobject':
                    import odf.opendocument as od
                    sub = od.OpenDocumentChart()
                    sub.chart.addElement(pk_factory('Chart')(check_grammar=False), check_grammar=False)
                    d.addObject(sub)
                elif free:
                    b = free[st[4] % len(free)]
                    if st[1] == 'rm':
                        self.keep.append(b); b.parentNode.removeChild(b)
                    elif not attached_to(a, b):                      # a is not inside b
                        if st[1] == 'move': a.appendChild(b)
                        else: a.insertBefore(b, a.firstChild)
            except RecursionError:
                raise
            except Exception as e:
                # every one of these edits is legal: a real child is removed, a node is moved to a place that is not inside itself,
                # an element is added without grammar check
                self.fail('legal-edit-refused-package', 'document %s: %s raised %s: %s' % (path, st[:2], type(e).__name__, e))
                return
        elif k == 'reload':
            from odf.opendocument import load
            buf = io.BytesIO()
            self.doc.write(buf)
            data = buf.getvalue()
            self.sweep('after step %d, the written family before the load' % idx)      # a serialisation leaves the index alone
            if self.failed: return
            if st[1]:
                data = strip_parts(data, st[1])
            self.keep.append(self.doc)
            self.doc = load(io.BytesIO(data))
        else:
            raise ValueError(st)
        if not self.failed:
            self.sweep('after step %d %s' % (idx, st[:2]))


def strip_parts(data, parts):
    """the same package without some of its optional parts (top level only), written with zipfile: the files and their
    manifest entries are left out"""
    import zipfile, re
    zin = zipfile.ZipFile(io.BytesIO(data))
    out = io.BytesIO()
    zout = zipfile.ZipFile(out, 'w', zipfile.ZIP_DEFLATED)
    for info in zin.infolist():
        if info.filename in parts: continue
        body = zin.read(info.filename)
        if info.filename == 'META-INF/manifest.xml':
            text = body.decode('utf-8')
            for pth in parts:
                text = re.sub(r'<manifest:file-entry[^>]*manifest:full-path="%s"[^>]*/>' % re.escape(pth), '', text)
            body = text.encode('utf-8')
        zout.writestr(info, body, zipfile.ZIP_STORED if info.filename == 'mimetype' else zipfile.ZIP_DEFLATED)
    zout.close()
    return out.getvalue()


def run_package(spec, steps):
    p = Package(spec)
    p.sweep('as built')
    for idx, st in enumerate(steps):
        if p.failed: break
        p.step(idx, st)
    return p


def shrink_package(spec, steps, sig):
    """drop steps, objects, content and styles while the same kind of failure remains"""
    import copy
    def fails(sp, sts):
        try:
            p = run_package(sp, sts)
        except Exception:
            return None
        if p.failed and p.failed[0] == sig:
            return sts[:p.failed[1] + 1]
        return None
    cur = fails(spec, steps)
    if cur is None: return spec, steps
    steps = cur
    changed = True
    while changed:
        changed = False
        for i in range(len(steps) - 1, -1, -1):
            r = fails(spec, steps[:i] + steps[i + 1:])
            if r is not None:
                steps = r; changed = True; break
    def variants(sp):
        if sp['tree']:
            v = copy.deepcopy(sp); v['tree'] = []; yield v
            for i in range(len(sp['tree'])):
                v = copy.deepcopy(sp); del v['tree'][i]; yield v
        if sp['styles']:
            v = copy.deepcopy(sp); v['styles'] = []; yield v
        for i in range(len(sp['objects'])):
            v = copy.deepcopy(sp); del v['objects'][i]; yield v
            for sub in variants(sp['objects'][i]):
                v = copy.deepcopy(sp); v['objects'][i] = sub; yield v
    changed = True
    while changed:
        changed = False
        for v in variants(spec):
            r = fails(v, steps)
            if r is not None:
                spec = v; steps = r; changed = True; break
    return spec, steps


def package_histories(chk, n):
    for s in range(n):
        spec = pk_random_spec(chk.rng)
        steps = pk_random_steps(chk.rng)
        p = run_package(spec, steps)
        chk.case(('package', json.dumps([spec, steps], sort_keys=True)), nontrivial=True,
                 sample={'kind': spec['kind'], 'objects': len(spec['objects']), 'steps': steps[:4]} if s < 3 else None)
        chk.count('package_history'); chk.count('package_kind_' + spec['kind'])
        chk.count('package_with_objects' if spec['objects'] else 'package_without_objects')
        if any(o['objects'] for o in spec['objects']): chk.count('package_with_objects_in_objects')
        if not spec['styles']: chk.count('package_without_registered_style')
        for st in steps: chk.count('package_step_' + st[0] + ('_parts_left_out' if st[0] == 'reload' and st[1] else ''))
        if p.failed:
            sig = p.failed[0]
            if not any(k['sig'] == sig for k in chk.known) and not any(f['sig'] == sig for f in chk.failures):
                try:
                    spec, steps = shrink_package(spec, steps, sig)
                    p = run_package(spec, steps) if run_package(spec, steps).failed else p
                except Exception:
                    pass
            chk.fail(sig, {'package': {'spec': spec, 'steps': steps}}, p.failed[2])


def targeted_histories(abc=(u'A', u'B', u'C')):
    """scripted histories for the situations random search reaches rarely: a container of styles moved as a whole,
    a registered style that ends up outside the style sections, name clashes onto taken names.
    Ids: skeleton 0..11 (7 = office:styles, 8 = office:automatic-styles, 11 = office:text), then the prologue:
    12,13 P; 14,15 Span; 16 Section; 17 H; 18 List; 19 ListItem; 20 Styles; 21 AutomaticStyles; 22..25 Style A,B,A,MA;
    26 text:a; 27 text:title; 28 Style without a name; 29 Style named ''.  abc: the three names of the history"""
    NS = D.STYLENS
    A, B, C = abc
    look = [['style', A], ['style', B], ['style', u'M' + A], ['style', C]]
    look0 = look + [['style', u'']]
    return [
        # 28 = a style:style WITHOUT style:name, 29 = one whose name is the empty string: attached under office:styles /
        # automatic-styles / office:text, moved (insertBefore / appendChild / addElement), removed, re-attached; inside a
        # container that is attached and removed as a whole; a registered style that loses its name and is then removed
        [['append', 7, 28], ['append', 7, 22], ['append', 7, 29]] + look0 + [['insb', 7, 28, 22], ['append', 8, 28], ['adde', 7, 28]] + look0 +
        [['rm', 7, 28], ['rm', 7, 29]] + look0 + [['append', 11, 28], ['rm', 11, 28], ['append', 8, 29], ['insb', 7, 29, 22], ['rm', 7, 29]] + look0,
        [['append', 20, 28], ['append', 20, 23], ['append', 20, 29], ['append', 10, 20]] + look0 + [['rm', 20, 28]] + look0 + [['append', 20, 28], ['rm', 10, 20]] + look0 +
        [['append', 12, 28], ['append', 11, 12], ['rm', 11, 12]] + look0,
        [['append', 7, 22], ['append', 8, 23], ['rma', 22, 'name']] + look0 + [['insb', 7, 22, None], ['rm', 7, 22]] + look0 +
        [['rma', 23, 'name'], ['append', 7, 23], ['rm', 7, 23], ['setns', 28, NS, u'name', B], ['append', 7, 28]] + look0,
        # container with a style attached as a whole, removed as a whole; the style then goes under office:text
        [['append', 20, 22], ['append', 7, 23], ['append', 11, 20]] + look + [['rm', 11, 20]] + look +
        [['append', 11, 22]] + look + [['append', 11, 20]] + look,
        # the same with the container re-attached and its style moved back under office:styles
        [['append', 21, 22], ['append', 21, 24], ['append', 7, 23], ['append', 10, 21]] + look + [['rm', 10, 21]] + look +
        [['append', 10, 21]] + look + [['append', 7, 22]] + look,
        # a registered style renamed, moved (still attached) out of the style sections, renamed back
        [['append', 7, 22], ['append', 7, 23], ['setns', 22, NS, u'name', C]] + look + [['append', 11, 22]] + look +
        [['setns', 22, NS, u'name', A]] + look + [['append', 8, 22]] + look,
        # clash onto a taken name: MA, A, A
        [['append', 7, 25], ['append', 7, 22], ['append', 8, 24]] + look + [['rm', 8, 24]] + look + [['rm', 7, 25]] + look,
        # a text:a and a text:title in the document, then the namesake factories draw.A / dc.Title are asked
        [['append', 12, 26], ['append', 12, 27], ['append', 11, 12], ['bytype', 'A'], ['bytype', 'DrawA'], ['bytype', 'TextTitle'],
         ['bytype', 'DcTitle'], ['elbytype', 12, 'DrawA'], ['elbytype', 12, 'A'], ['rm', 12, 26], ['bytype', 'DrawA'], ['bytype', 'A']],
        # the public cache methods: edits and lookups on an emptied index, then a rebuild
        [['append', 11, 12], ['append', 12, 14], ['cache', 'clear'], ['rm', 12, 14], ['append', 11, 13], ['cache', 'clear'],
         ['append', 13, 14], ['insb', 11, 13, 12], ['cache', 'rebuild'], ['rm', 11, 12], ['append', 7, 22], ['cache', 'clear'], ['rm', 7, 22]],
        # a renamed style removed, another style of its old name added
        [['append', 7, 22], ['setns', 22, NS, u'name', B], ['append', 8, 23]] + look + [['rm', 7, 22], ['append', 8, 24]] + look,
    ]


def run(chk, replay=None):
    chk.rule = ('histories of <= 30 operations on a real text document with 14 extra elements (4 of them style:style named A, B, A, MA; a free office:styles and a free office:automatic-styles container), '
                '2 text and 1 CDATA node: append / insertBefore / removeChild / addElement / addText / addCDATA on attached and '
                'detached parents (whole subtrees added, removed, re-added, moved; text nodes moved), styles added under '
                'office:styles and office:automatic-styles, renamed, removed; xml() / metaxml() / save() interleaved; load() of the saved '
                'package; after every step 12 document-level type queries (incl. same-named factories of different modules), 5 name lookups, 8 element-level queries, isInstanceOf; '
                'every type that occurs in the tree asked for after every step, before the name lookups; packages: documents of 7 classes with embedded '
                'objects (nested, inline office:document), rendered / written / loaded (optional parts left out) / edited / loaded again, the document and every '
                'embedded object swept after every step; non-trivial = history that changes the set of attached elements')
    if replay is not None and 'package' in replay['input']:
        pk = replay['input']['package']
        p = run_package(pk['spec'], pk['steps'])
        print('replay: package %s -> %s' % (json.dumps(pk, sort_keys=True), p.failed))
        return 1 if p.failed else 0
    if replay is not None and 'twodocs' in replay['input']:
        t = run_twodocs(replay['input']['twodocs'])
        print('replay: two documents, ops=%s -> %s' % (json.dumps(replay['input']['twodocs']), t.failed))
        return 1 if t.failed else 0
    if replay is not None:
        h = replay_history(replay['input']['ops'])
        print('replay: ops=%s -> %s' % (json.dumps(replay['input']['ops']), h.orc.failed))
        return 1 if h.orc.failed else 0
    chk.prove(modules=['OdfModel.Props.C09', 'OdfModel.Props.C09Load', 'OdfModel.Props.C09Queries'], drivers=['drv_domdoc'])
    drv = chk.driver('drv_domdoc')
    thorough = chk.tier == 'thorough'
    nhist = 2000 if thorough else 420
    for s in range(nhist):
        # two histories in five use names that are not stable under Unicode normalisation, with their normalised twins
        h = History(chk.rng, family=(None if s % 5 < 3 else (s // 5) % len(NAME_FAMILIES)))
        chk.count('history_plain_names' if h.family is None else 'history_names_not_normalisation_stable')
        h.prologue()
        n = chk.rng.randint(5, 30)
        for _ in range(n):
            if h.orc.failed: break
            op = h.random_op()
            ans = h.step(op)
            chk.count('op_' + (op[0] if op[0] != 'setns' else 'rename'))
            if ans != 'ok' and not ans.startswith('ok'): chk.count('refused_' + op[0])
        correspond(chk, drv, h)
        body = [o for o in h.ops if o[0] != 'new']
        chk.case(json.dumps(h.ops), nontrivial=any(o[0] in ('append', 'insb', 'rm', 'adde') for o in body),
                 sample={'ops': body[4:10]} if s < 4 else None)
        chk.count('history_with_load' if h.loaded else 'history_no_load')
        if h.orc.renamed: chk.count('history_with_rename_of_registered_style')
        if h.orc.dupnames: chk.count('history_with_duplicate_style_names')
        if h.orc.failed:
            report(chk, h)
    twodocs_histories(chk, 1500 if thorough else 250)
    package_histories(chk, 1000 if thorough else 160)
    scripts = [(None, sc) for sc in targeted_histories()]
    for fam in range(len(NAME_FAMILIES)):         # the same scripts with names a normaliser would identify (thorough: all of them)
        ts = targeted_histories(tuple(NAME_FAMILIES[fam]))
        scripts += [(fam, sc) for j, sc in enumerate(ts) if thorough or j == fam % 3 or j == 3 + fam % (len(ts) - 3)]
    for k, (fam, script) in enumerate(scripts):
        h = History(chk.rng, family=fam)
        h.prologue()
        for op in script:
            if h.orc.failed: break
            h.step(op)
        correspond(chk, drv, h)
        chk.case('targeted-%d' % k, nontrivial=True); chk.count('targeted_history')
        if h.orc.failed:
            report(chk, h)
    ns, na = exhaustive(chk, drv, 4 if thorough else 1, 1200 if thorough else 200)
    chk.notes.append('exhaustive part: %d distinct states (full state incl. dictionaries), %d (state, edit) pairs, histories <= %d'
                     % (ns, na, (4 if thorough else 1) + 1))
    return chk.finish()

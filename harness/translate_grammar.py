# -*- coding: utf-8 -*-
"""
Translator of property C06 (run on every check):   /repo  ->  lean/OdfModel/Generated/Grammar*.lean

 (a) grammar/OpenDocument-schema-v1.2-cd04.rng + grammar/OpenDocument-manifest-schema-v1.2-cd1.rng
     -> one Lean `P` term per <define> and one `Decl` per <element> (GrammarSchema.lean).  The translation is
     purely syntactic: every RELAX-NG element becomes the constructor of the same name, children in document
     order; several <define>s of one name are combined with their `combine` attribute (as RELAX-NG says); every
     <element> is lifted into the declaration table and replaced by `.element <row>` (RELAX-NG simplification
     4.19); names are interned as `Nat` ids (elements, attributes, defines each in their own id space).
     What a pattern *means* (mayElems, mayText, mayAttrs, mustAttrs) is Lean code
     (lean/OdfModel/Grammar.lean), not translator code.
 (b) odf/grammar.py imported and dumped into Lean association lists over the same ids
     (GrammarTables.lean): allowed_children, allows_text, required_attributes, allowed_attributes; plus the
     keyword of every attribute id (as the numeral of the keyword string; theorem kw_table_ok checks it against
     the Lean model of `a[1].lower().replace('-','')`).
 (c) the factory inventory (GrammarFactories.lean): for every public function of the element
     modules the qname of f(check_grammar=False), or why it could not be called.
 (d) the name tables (GrammarNames.lean): display name `prefix:local` of every id as ONE numeral (its bytes in
     base 256), which is how the hand-written Exceptions / KnownFindings lists name rows (`n!"text:p"`).

Nothing here decides anything: a construct the translator does not know raises TranslateError.
"""
import os, sys, importlib, xml.dom.minidom as minidom

RNGNS = "http://relaxng.org/ns/structure/1.0"
SCHEMAS = ['grammar/OpenDocument-schema-v1.2-cd04.rng', 'grammar/OpenDocument-manifest-schema-v1.2-cd1.rng']
FACTORY_MODULES = ['text', 'table', 'draw', 'style', 'office', 'number', 'form', 'chart', 'presentation', 'anim',
                   'dr3d', 'svg', 'meta', 'dc', 'config', 'script', 'math', 'xforms', 'manifest']
CHUNK = 32          # the define table is emitted in chunks of this many (two-level lookup in the kernel)
BOGUS_KEYWORDS = ['bogus', 'nosuchattribute', 'xyzzy']


class TranslateError(Exception):
    pass


class Interner(object):
    def __init__(self):
        self.ids = {}
        self.items = []

    def __call__(self, x):
        i = self.ids.get(x)
        if i is None:
            i = self.ids[x] = len(self.items)
            self.items.append(x)
        return i

    def __len__(self):
        return len(self.items)


def kw_of(local):
    """the keyword of an attribute, exactly as odf/element.py computes it"""
    return local.lower().replace('-', '')


class Grammar(object):
    """everything the translator extracted; also used by harness/c06.py as its vocabulary"""
    pass


def duplicate_keys(path):
    """keys that occur twice in the dict displays of the four tables (source level; the import keeps the last)"""
    import ast
    out = []
    try:
        with open(path, encoding='utf-8') as f:
            tree = ast.parse(f.read())
    except Exception:
        return out
    for node in tree.body:
        if isinstance(node, ast.Assign) and isinstance(node.value, ast.Dict) and len(node.targets) == 1 and \
                getattr(node.targets[0], 'id', None) in ('allowed_children', 'required_attributes', 'allowed_attributes'):
            seen = set()
            for k in node.value.keys:
                d = ast.dump(k) if k is not None else None
                if d in seen:
                    out.append((node.targets[0].id, ast.unparse(k)))
                seen.add(d)
    return out


def read_schemas(repo):
    """the shipped schema files as DOM trees with their own prefix bindings: [(relative path, root, {prefix: URI})]"""
    out = []
    for rel in SCHEMAS:
        root = minidom.parse(os.path.join(repo, rel)).documentElement
        nsmap = {'xml': 'http://www.w3.org/XML/1998/namespace'}
        for k, v in root.attributes.items():
            if k.startswith('xmlns:'):
                nsmap[k[6:]] = v
        out.append((rel, root, nsmap))
    return out


def kids(e):
    return [c for c in e.childNodes if c.nodeType == 1]


def translate(repo):
    G = Grammar()
    if os.environ.get('C06_FORCE_TRANSLATE_ERROR'):
        raise TranslateError('forced by C06_FORCE_TRANSLATE_ERROR (self-test of the fallback sweep)')
    sys_path_repo = repo
    if sys_path_repo not in sys.path:
        sys.path.insert(0, sys_path_repo)
    prefix_of = {}          # uri -> prefix, from the xmlns declarations of the SCHEMA files only (display names / signatures;
                            # identity is always the (namespace URI, local name) pair; odf.namespaces is not consulted)
    elems, attrs, defs, strs = Interner(), Interner(), Interner(), Interner()
    G.elems, G.attrs, G.defnames, G.strs = elems, attrs, defs, strs

    # ------------------------------------------------------------------ (a) the schemas
    def_bodies = {}            # define id -> list of (combine, lean term)
    decls = []                 # element declarations in document order: (name class, content)
    starts = []
    G.rng_docs = []

    for fi, rel in enumerate(SCHEMAS):
        doc = minidom.parse(os.path.join(repo, rel))
        root = doc.documentElement
        if root.namespaceURI != RNGNS or root.localName != 'grammar':
            raise TranslateError('%s: root is not rng:grammar' % rel)
        nsmap = {'xml': 'http://www.w3.org/XML/1998/namespace'}           # reserved prefix (Namespaces in XML)
        prefix_of.setdefault(nsmap['xml'], 'xml')
        for k, v in root.attributes.items():
            if k.startswith('xmlns:'):
                nsmap[k[6:]] = v
                prefix_of.setdefault(v, k[6:])
        G.rng_docs.append((rel, root, nsmap))

        def qn(s, table, nsmap=nsmap, rel=rel):
            s = s.strip()
            if ':' in s:
                p, l = s.split(':', 1)
                if p not in nsmap:
                    raise TranslateError('%s: unbound prefix in name %r' % (rel, s))
                return table((nsmap[p], l))
            return table(('', s))

        def nc_conv(nc, table):
            t = nc.localName
            if nc.namespaceURI != RNGNS:
                raise TranslateError('foreign element in name class: %s' % nc.tagName)
            if t == 'name':
                if nc.hasAttribute('ns'):
                    raise TranslateError('ns= on <name> not supported')
                return '.name %d' % qn(nc.firstChild.data, table)
            if t == 'anyName':
                if kids(nc):
                    raise TranslateError('<anyName> with <except> not supported')
                return '.any'
            if t == 'choice':
                return '.choice [%s]' % ', '.join('(%s)' % nc_conv(k, table) for k in kids(nc))
            raise TranslateError('name class <%s> not supported' % t)

        def nameclass(e, table):
            if e.hasAttribute('ns'):
                raise TranslateError('ns= attribute not supported')
            if e.hasAttribute('name'):
                return '.name %d' % qn(e.getAttribute('name'), table), kids(e)
            ks = kids(e)
            if not ks:
                raise TranslateError('<%s> without name class' % e.localName)
            return nc_conv(ks[0], table), ks[1:]

        def seq(tag, es):
            es = [conv(x) for x in es]
            if len(es) == 1:
                return es[0]
            return '(.%s [%s])' % (tag, ', '.join(es))

        def conv(e, fi=fi):
            if e.namespaceURI != RNGNS:
                raise TranslateError('foreign element <%s> inside a pattern' % e.tagName)
            t = e.localName
            if t == 'ref':
                return '(.ref %d)' % defs((fi, e.getAttribute('name')))
            if t == 'element':
                # lifted out (RELAX-NG simplification 4.19): the occurrence refers to row i of the declaration table
                nc, rest = nameclass(e, elems)
                i = len(decls)
                decls.append(None)
                decls[i] = (nc, seq('group', rest) if rest else '.empty')
                return '(.element %d)' % i
            if t == 'attribute':
                nc, rest = nameclass(e, attrs)
                return '(.attribute (%s) %s)' % (nc, seq('group', rest) if rest else '.text')
            if t in ('group', 'interleave', 'choice'):
                return seq(t, kids(e))
            if t in ('optional', 'zeroOrMore', 'oneOrMore', 'mixed', 'list'):
                return '(.%s %s)' % (t, seq('group', kids(e)))
            if t in ('empty', 'text', 'notAllowed'):
                return '.' + t
            if t == 'value':
                return '(.value %d)' % strs(e.firstChild.data if e.firstChild else '')
            if t == 'data':
                for p in kids(e):
                    if p.localName not in ('param',):
                        raise TranslateError('<data> child <%s> not supported' % p.localName)
                pat = [p.firstChild.data for p in kids(e) if p.getAttribute('name') == 'pattern' and p.firstChild]
                return '(.data %d %s)' % (strs(e.getAttribute('type')), '(some %d)' % strs(pat[0]) if pat else 'none')
            raise TranslateError('pattern <%s> not supported' % t)

        for d in kids(root):
            if d.namespaceURI != RNGNS:
                continue
            if d.localName == 'define':
                i = defs((fi, d.getAttribute('name')))
                def_bodies.setdefault(i, []).append((d.getAttribute('combine') or '', seq('group', kids(d))))
            elif d.localName == 'start':
                starts.append(seq('group', kids(d)))
            else:
                raise TranslateError('grammar content <%s> not supported' % d.localName)

    undefined = [defs.items[i] for i in range(len(defs)) if i not in def_bodies]
    if undefined:
        raise TranslateError('reference to undefined pattern(s): %r' % undefined[:5])
    n_schema_elems, n_schema_attrs = len(elems), len(attrs)
    G.n_schema_elems, G.n_schema_attrs = n_schema_elems, n_schema_attrs
    G.n_decls = len(decls)

    # ------------------------------------------------------------------ (b) grammar.py
    for m in [k for k in sys.modules if k == 'odf' or k.startswith('odf.')]:
        pass  # (the harness process imports odf once, from `repo`)
    g = importlib.import_module('odf.grammar')
    if not os.path.abspath(g.__file__).startswith(os.path.abspath(repo)):
        raise TranslateError('odf.grammar was imported from %s, not from %s' % (g.__file__, repo))

    # The tables are dumped as the membership tests of element.py see them.  A row of unexpected shape (a string or a
    # bare (ns, name) pair where a tuple of pairs belongs, an entry that is no pair of strings, a key that is no pair, None
    # where a container belongs) is recorded in G.malformed - harness/c06.py turns that into a broken obligation - and
    # dumped with its well-formed entries only, so that the Lean tables still build and the sweep of the real API against
    # the schema runs for ALL rows; what the real API does with the odd row then shows as a concrete call.
    # Lists, sets and frozensets of pairs are containers like tuples (sets are dumped sorted: membership only).
    G.malformed = []
    def is_pair(x):
        return isinstance(x, (tuple, list)) and len(x) == 2 and all(isinstance(y, str) for y in x)

    def show(k):
        return ('%s:%s' % (prefix_of[k[0]], k[1]) if k[0] in prefix_of else '{%s}%s' % tuple(k)) if is_pair(k) else repr(k)[:60]

    def pairs(v, table, key, none_ok):
        """well-formed entries of a container value"""
        if v is None:
            if not none_ok:
                G.malformed.append((table, show(key), 'None where a container of (namespace, name) pairs belongs'))
            return None if none_ok else []
        if isinstance(v, (str, bytes)) or not hasattr(v, '__iter__'):
            G.malformed.append((table, show(key), 'value is %s, not a container of pairs' % type(v).__name__))
            return []
        items = sorted(v, key=repr) if isinstance(v, (set, frozenset)) else list(v)
        good = [tuple(x) for x in items if is_pair(x)]
        if len(good) != len(items):
            bad = [x for x in items if not is_pair(x)]
            G.malformed.append((table, show(key), '%d entr%s no (namespace, name) pair, e.g. %r%s' % (
                len(bad), 'y is' if len(bad) == 1 else 'ies are', bad[0],
                ' - the row is probably a bare pair: a one-element tuple needs a trailing comma' if all(isinstance(x, str) for x in items) else '')))
        return good

    def rows_of(d, table, none_ok):
        out = {}
        if not isinstance(d, dict):
            G.malformed.append((table, '*', 'the table is %s, not a dict' % type(d).__name__))
            return out
        for k, v in d.items():
            if not is_pair(k):
                G.malformed.append((table, show(k), 'key is no (namespace, name) pair'))
                continue
            out[tuple(k)] = pairs(v, table, k, none_ok)
        return out

    T_children = rows_of(getattr(g, 'allowed_children', None), 'allowed_children', True)
    T_attrs = rows_of(getattr(g, 'allowed_attributes', None), 'allowed_attributes', True)
    T_required = rows_of(getattr(g, 'required_attributes', None), 'required_attributes', False)
    T_text = pairs(getattr(g, 'allows_text', None), 'allows_text', '*', False)
    # a key written twice in the dict display: the later row silently wins (noted; the dump is what the import gives)
    G.duplicate_keys = duplicate_keys(g.__file__)

    def opt_list(v, table):
        if v is None:
            return 'none'
        return 'some [%s]' % ', '.join(str(table(x)) for x in v)

    children_rows = [(elems(k), opt_list(v, elems)) for k, v in T_children.items()]
    text_rows = [elems(k) for k in T_text]
    required_rows = [(elems(k), '[%s]' % ', '.join(str(attrs(x)) for x in v)) for k, v in T_required.items()]
    attr_rows = [(elems(k), opt_list(v, attrs)) for k, v in T_attrs.items()]
    G.py_tables = {'allowed_children': T_children, 'allows_text': T_text, 'required_attributes': T_required, 'allowed_attributes': T_attrs}

    # ------------------------------------------------------------------ (c) factories
    from odf import element as odf_element
    fac_rows = []          # (module, function, elem id or None, note)
    for mn in FACTORY_MODULES:
        try:
            mod = importlib.import_module('odf.' + mn)
        except Exception as e:
            fac_rows.append((mn, '*', None, 'import failed: %s' % type(e).__name__))
            continue
        for fn in sorted(dir(mod)):
            f = getattr(mod, fn)
            if not fn[:1].isupper() or not callable(f) or isinstance(f, type):
                continue
            if getattr(f, '__module__', None) != mod.__name__:
                continue
            try:
                el = f(check_grammar=False)
            except Exception as e:
                fac_rows.append((mn, fn, None, '%s: %s' % (type(e).__name__, str(e)[:60])))
                continue
            q = getattr(el, 'qname', None)
            if not (isinstance(q, tuple) and len(q) == 2):
                fac_rows.append((mn, fn, None, 'result has no qname'))
                continue
            fac_rows.append((mn, fn, elems(tuple(q)), ''))
    G.factories = fac_rows

    # ------------------------------------------------------------------ (d) names, keywords
    used = set()

    def disp(q):
        """`prefix:local` with the schema's prefix; `{namespace URI}local` for a namespace the schemas do not declare (or
        if two of their URIs shared a prefix) - unique by construction"""
        ns, l = q
        n = l if ns == '' else ('%s:%s' % (prefix_of[ns], l) if ns in prefix_of else '{%s}%s' % (ns, l))
        if n in used:
            n = '{%s}%s' % (ns, l)
        used.add(n)
        return n
    G.elem_names = [disp(q) for q in elems.items]
    used = set()
    G.attr_names = [disp(q) for q in attrs.items]
    kws = Interner()
    for k in sorted(set([kw_of(q[1]) for q in attrs.items] + BOGUS_KEYWORDS), key=lambda k: (len(k.encode('utf-8')), k)):
        kws(k)         # ascending as numerals (shorter first, then bytewise): distinctness is a linear check in Lean
    attr_kw = [kws(kw_of(q[1])) for q in attrs.items]
    G.kws, G.attr_kw = kws, attr_kw

    def cps(s):
        return '[%s]' % ', '.join(str(ord(c)) for c in s)

    def num(s):
        return int.from_bytes(s.encode('utf-8'), 'big')

    def lstr(s):
        return '"%s"' % s.replace('\\', '\\\\').replace('"', '\\"')

    # ------------------------------------------------------------------ emit
    hdr = '-- GENERATED by harness/translate_grammar.py from $ODFPY_REPO on every run of ./check C06.  Do not edit.\n'
    out = [hdr, 'import OdfModel.Grammar', 'set_option maxRecDepth 1000000', 'namespace OdfModel.Generated.GrammarSchema', 'open OdfModel.Grammar', '']
    out.append('/-- sources, in define-id order of first mention: %s -/' % ', '.join(SCHEMAS))
    for i in range(len(defs)):
        parts = def_bodies[i]
        if len(parts) == 1:
            body = parts[0][1]
        else:
            combs = set(c for c, _ in parts if c)
            if len(combs) != 1:
                raise TranslateError('define %r: %d parts with combine=%r' % (defs.items[i], len(parts), sorted(combs)))
            body = '(.%s [%s])' % (combs.pop(), ', '.join(b for _, b in parts))
        out.append('def d%d : P := %s  -- %s' % (i, body, defs.items[i][1]))
    nchunks = (len(defs) + CHUNK - 1) // CHUNK
    for c in range(nchunks):
        out.append('def chunk%d : List P := [%s]' % (c, ', '.join('d%d' % i for i in range(c * CHUNK, min(len(defs), (c + 1) * CHUNK)))))
    for i, (nc, body) in enumerate(decls):
        out.append('def e%d : Decl := ⟨%s, %s⟩' % (i, nc, body))
    nechunks = (len(decls) + CHUNK - 1) // CHUNK
    for c in range(nechunks):
        out.append('def echunk%d : List Decl := [%s]' % (c, ', '.join('e%d' % i for i in range(c * CHUNK, min(len(decls), (c + 1) * CHUNK)))))
    out.append('/-- the define table and the element-declaration table, in chunks of %d -/' % CHUNK)
    out.append('def schema : Schema := ⟨⟨%d, [%s]⟩, ⟨%d, [%s]⟩⟩' % (CHUNK, ', '.join('chunk%d' % c for c in range(nchunks)),
                                                                CHUNK, ', '.join('echunk%d' % c for c in range(nechunks))))
    out.append('def nDecls : Nat := %d' % len(decls))
    out.append('def nDefs : Nat := %d' % len(defs))
    out.append('/-- the <start> patterns of the two schema files -/')
    out.append('def starts : List P := [%s]' % ', '.join(starts))
    out.append('/-- ids below this are element names that occur in the schemas -/')
    out.append('def nSchemaElems : Nat := %d' % n_schema_elems)
    out.append('def nSchemaAttrs : Nat := %d' % n_schema_attrs)
    out.append('end OdfModel.Generated.GrammarSchema')
    G.lean_schema = '\n'.join(out) + '\n'

    out = [hdr, 'import OdfModel.GrammarApi', 'set_option maxRecDepth 1000000', 'namespace OdfModel.Generated.GrammarTables', 'open OdfModel.GrammarApi', '']
    out.append('def allowedChildren : List (Nat × Option (List Nat)) := [\n  %s]' % ',\n  '.join('(%d, %s)' % r for r in children_rows))
    out.append('def allowsText : List Nat := [%s]' % ', '.join(map(str, text_rows)))
    out.append('def requiredAttributes : List (Nat × List Nat) := [\n  %s]' % ',\n  '.join('(%d, %s)' % r for r in required_rows))
    out.append('def allowedAttributes : List (Nat × Option (List Nat)) := [\n  %s]' % ',\n  '.join('(%d, %s)' % r for r in attr_rows))
    out.append('/-- keyword of attribute id i (element.py: a[1].lower().replace(\'-\',\'\')), as the numeral of the keyword string;')
    out.append('    checked against the Lean model of that expression by theorem kw_table_ok -/')
    out.append('def attrKw : List Nat := [\n  %s]' % ',\n  '.join('%d /- %s -/' % (num(kws.items[k]), kws.items[k]) for k in attr_kw))
    out.append('def tables : Tables := ⟨allowedChildren, allowsText, requiredAttributes, allowedAttributes, attrKw⟩')
    out.append('/-- all element ids (schema, grammar.py, factories) are below this -/')
    out.append('def nElems : Nat := %d' % len(elems))
    out.append('def nAttrs : Nat := %d' % len(attrs))
    out.append('def nKws : Nat := %d' % len(kws))
    out.append('end OdfModel.Generated.GrammarTables')
    G.lean_tables = '\n'.join(out) + '\n'

    out = [hdr, 'set_option maxRecDepth 1000000', 'namespace OdfModel.Generated.GrammarFactories', '']
    out.append('/-- element id produced by each public factory function that could be called with check_grammar=False -/')
    out.append('def factoryQnames : List Nat := [%s]' % ', '.join(str(r[2]) for r in fac_rows if r[2] is not None))
    out.append('/-- (module.function, element id) -/')
    out.append('def factoryNames : List (String × Nat) := [\n  %s]' % ',\n  '.join('(%s, %d)' % (lstr(r[0] + '.' + r[1]), r[2]) for r in fac_rows if r[2] is not None))
    out.append('/-- public functions that could not be called: (module.function, reason) -/')
    out.append('def uncallable : List (String × String) := [\n  %s]' % ',\n  '.join('(%s, %s)' % (lstr(r[0] + '.' + r[1]), lstr(r[3])) for r in fac_rows if r[2] is None))
    out.append('end OdfModel.Generated.GrammarFactories')
    G.lean_factories = '\n'.join(out) + '\n'

    out = [hdr, 'set_option maxRecDepth 1000000', 'namespace OdfModel.Generated.GrammarNames', '']
    out.append('/-! A name is stored as ONE numeral: its bytes read as a big-endian base-256 number')
    out.append('    (`OdfModel.GrammarNamesCodec`), so that comparing names in the kernel is one `Nat.beq`. -/')
    out.append('/-- display name `prefix:local` of element id i -/')
    out.append('def elemName : List Nat := [\n  %s]' % ',\n  '.join('%d /- %s -/' % (num(n), n) for n in G.elem_names))
    out.append('/-- display name `prefix:local` of attribute id i -/')
    out.append('def attrName : List Nat := [\n  %s]' % ',\n  '.join('%d /- %s -/' % (num(n), n) for n in G.attr_names))
    out.append('/-- all keywords (ascending numerals): the keyword universe swept by the harness -/')
    out.append('def kwName : List Nat := [\n  %s]' % ',\n  '.join('%d /- %s -/' % (num(k), k) for k in kws.items))
    out.append('def strs : Array String := #[%s]' % ', '.join(lstr(s) for s in strs.items))
    out.append('def defNames : Array String := #[%s]' % ', '.join(lstr(('m:' if d[0] else '') + d[1]) for d in defs.items))
    out.append('end OdfModel.Generated.GrammarNames')
    G.lean_names = '\n'.join(out) + '\n'
    return G


def write(chk, G):
    chk.write_generated('GrammarSchema', G.lean_schema)
    chk.write_generated('GrammarTables', G.lean_tables)
    chk.write_generated('GrammarFactories', G.lean_factories)
    chk.write_generated('GrammarNames', G.lean_names)


if __name__ == '__main__':
    G = translate(os.environ.get('ODFPY_REPO', '/repo'))
    print(len(G.defnames), 'defines', len(G.elems), 'elements (%d schema)' % G.n_schema_elems,
          len(G.attrs), 'attributes (%d schema)' % G.n_schema_attrs, len(G.kws), 'keywords',
          len(G.factories), 'factory functions', sum(1 for r in G.factories if r[2] is None), 'uncallable')
    for k in ('lean_schema', 'lean_tables', 'lean_factories', 'lean_names'):
        print(k, len(getattr(G, k)))
    if '--write' in sys.argv:
        import common
        write(common.Check('C06'), G)
        print('written')

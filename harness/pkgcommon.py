# -*- coding: utf-8 -*-
"""Shared parts of the package-layer checks C03 and C16 (model lean/OdfModel/Pkg.lean, driver drv_pkg).

  * MDoc            - the harness' own record of what was registered through the API (mirror of the model's Doc)
  * build_*         - run a JSON-able spec on the real library
  * make_package    - assemble a foreign package by hand (zipfile + hand-written manifest), for load()
  * read_archive    - the observation: raw first local header, zipfile listing, manifest parsed with expat
  * compare_listing - correspondence: model entry/manifest list vs the real archive
  * oracle_*        - the property text evaluated on the real archive (no model, no odfmanifest)
"""
import io, os, re, struct, zipfile, hashlib, mimetypes, warnings
import xml.parsers.expat
from common import enc_str, dec_str

MANIFESTNS = 'urn:oasis:names:tc:opendocument:xmlns:manifest:1.0'
OFFICENS = 'urn:oasis:names:tc:opendocument:xmlns:office:1.0'
DRAWNS = 'urn:oasis:names:tc:opendocument:xmlns:drawing:1.0'
XLINKNS = 'http://www.w3.org/1999/xlink'
KINDS = {
    'text': 'application/vnd.oasis.opendocument.text',
    'spreadsheet': 'application/vnd.oasis.opendocument.spreadsheet',
    'graphics': 'application/vnd.oasis.opendocument.graphics',
    'chart': 'application/vnd.oasis.opendocument.chart',
    'presentation': 'application/vnd.oasis.opendocument.presentation',
    'image': 'application/vnd.oasis.opendocument.image',
    'text-master': 'application/vnd.oasis.opendocument.text-master',
}
# media types without a factory function (templates ...): documents made with OpenDocument(mimetype, add_generator=False)
BARE_MTS = [u'application/vnd.oasis.opendocument.' + x for x in (
    'text-template', 'spreadsheet-template', 'graphics-template', 'presentation-template', 'chart-template', 'image-template',
    'formula', 'formula-template', 'text-web', 'text', 'chart')]
MARK = re.compile(br'OBJMARK(\d+)K')


def enc_bytes(b):
    if b is None:
        return '~'
    if len(b) == 0:
        return '-'
    return '.'.join('%x' % c for c in b)


def dec_bytes(w):
    if w == '~':
        return None
    if w == '-':
        return b''
    return bytes(int(x, 16) for x in w.split('.'))


def opt_str(s):
    return '~' if s is None else enc_str(s)


# --------------------------------------------------------------------------- mirror of the model's Doc
class MDoc(object):
    def __init__(self, id, mimetype, hs=False, folder=u''):
        self.id = id; self.mimetype = mimetype; self.hs = hs
        self.regs = []        # (href, 'F'|'I', filename(str)|bytes, mediatype) in registration order
        self.thumb = None
        self.thumb_mt = u''   # the _thumbnail_mediatype attribute load() sets (u'' when absent)
        self.extras = []      # (filename, mediatype, bytes|None)
        self.folder = folder
        self.kids = []
        self.real = None      # the OpenDocument
        self.marker = id      # which OBJMARK<n>K its XML parts carry
        self.refs = []        # references returned by addObject for its kids, parallel to kids (None if unknown)
        self.files = {}       # filename -> bytes for pictures registered by file name

    def tokens(self):
        t = ['D', str(self.id), enc_str(self.mimetype), '1' if self.hs else '0', str(len(self.regs))]
        for href, k, data, mt in self.regs:
            t += [enc_str(href), k, enc_str(data) if k == 'F' else enc_bytes(data), enc_str(mt)]
        t += [enc_bytes(self.thumb), enc_str(self.thumb_mt if self.thumb is not None else u''), str(len(self.extras))]
        for fn, mt, c in self.extras:
            t += [enc_str(fn), enc_str(mt), enc_bytes(c)]
        t += [enc_str(self.folder), str(len(self.kids))]
        for k in self.kids:
            t += k.tokens()
        return t

    def walk(self):
        yield self
        for k in self.kids:
            for x in k.walk():
                yield x

    def final_pictures(self):
        """dict semantics written from scratch (oracle side): last registration under a href wins"""
        d = {}
        for href, k, data, mt in self.regs:
            d[href] = (k, data, mt)
        return d


def parse_doc(tok, i=0):
    """prefix form -> (MDoc, next index)"""
    assert tok[i] == 'D', tok[i:i + 3]
    m = MDoc(int(tok[i + 1]), dec_str(tok[i + 2]), tok[i + 3] == '1')
    n = int(tok[i + 4]); i += 5
    for _ in range(n):
        href = dec_str(tok[i]); k = tok[i + 1]
        data = dec_str(tok[i + 2]) if k == 'F' else dec_bytes(tok[i + 2])
        m.regs.append((href, k, data, dec_str(tok[i + 3]))); i += 4
    m.thumb = dec_bytes(tok[i]); m.thumb_mt = dec_str(tok[i + 1]); n = int(tok[i + 2]); i += 3
    for _ in range(n):
        m.extras.append((dec_str(tok[i]), dec_str(tok[i + 1]), dec_bytes(tok[i + 2]))); i += 3
    m.folder = dec_str(tok[i]); n = int(tok[i + 1]); i += 2
    for _ in range(n):
        k, i = parse_doc(tok, i)
        m.kids.append(k)
    return m, i


def diff_window(a, b, width=700):
    """the stretch around the first difference of two long strings"""
    k = next((i for i in range(min(len(a), len(b))) if a[i] != b[i]), min(len(a), len(b)))
    lo = max(0, k - 200)
    return 'at %d: %s' % (k, a[lo:lo + width]), 'at %d: %s' % (k, b[lo:lo + width])


def parse_listing(tok):
    """{Z name S|D extra content} {M path mediatype F|f} -> (zlist, mlist)"""
    z, m = [], []
    i = 0
    while i < len(tok):
        if tok[i] == 'Z':
            z.append((dec_str(tok[i + 1]), tok[i + 2], tok[i + 3], tok[i + 4])); i += 5
        elif tok[i] == 'M':
            m.append((dec_str(tok[i + 1]), dec_str(tok[i + 2]), tok[i + 3])); i += 4
        else:
            raise ValueError('bad listing token %r' % tok[i])
    return z, m


# --------------------------------------------------------------------------- the real library
def new_real(kind, marker, settings, load_mode=False):
    """a real document of `kind` whose content.xml and styles.xml carry OBJMARK<marker>K"""
    from odf import opendocument, style, text, table, config
    ctor = {'text': opendocument.OpenDocumentText, 'spreadsheet': opendocument.OpenDocumentSpreadsheet,
            'graphics': opendocument.OpenDocumentDrawing, 'chart': opendocument.OpenDocumentChart,
            'presentation': opendocument.OpenDocumentPresentation, 'image': opendocument.OpenDocumentImage,
            'text-master': opendocument.OpenDocumentTextMaster}[kind]
    d = ctor()
    name = u'OBJMARK%dK' % marker
    d.fontfacedecls.addElement(style.FontFace(name=name, fontfamily=u'Mark'))
    d.styles.addElement(style.Style(name=name, family=u'paragraph'))
    if kind == 'text':
        d.text.addElement(text.P(text=name))
    elif kind == 'spreadsheet':
        d.spreadsheet.addElement(table.Table(name=name))
    if settings:
        s = config.ConfigItemSet(name=u'ooo:view-settings')
        s.addElement(config.ConfigItem(name=name, type=u'string', text=u'x'))
        d.settings.addElement(s)
    return d


def dedup_keys(manifest):
    """the keys of odfmanifest's dict for a raw (path, mediatype) list: first position of every path"""
    out = []
    for p_, _t in manifest:
        if p_ not in out:
            out.append(p_)
    return out


def dump_real(doc, keys, id=0):
    """a real OpenDocument as load() left it, in the model's prefix form.  Ghost ids as the model assigns them: top 0,
    a sub-document 1 + the position of its folder entry ("Object 1/Object 2/") among the manifest keys"""
    m = MDoc(id, doc.mimetype, doc.settings.hasChildNodes(), doc.folder)
    for href, (kind, data, mt) in doc.Pictures.items():
        m.regs.append((href, 'F' if kind == 0 else 'I', data, mt))
    m.thumb = doc.thumbnail
    m.thumb_mt = getattr(doc, '_thumbnail_mediatype', u'')
    for op in doc._extra:
        m.extras.append((op.filename, op.mediatype, op.content))
    for c in doc.childobjects:
        path = c.folder[1:] + u'/'
        m.kids.append(dump_real(c, keys, keys.index(path) + 1 if path in keys else -1))
    m.real = doc
    return m


def save_real(doc, via='fileobj', tmpdir=None):
    """save through one of the entry points: save(file object) / save(file name) / save(file name, addsuffix=True) / write(file object)"""
    with warnings.catch_warnings(record=True) as w:
        warnings.simplefilter('always')
        if via in ('name', 'name+suffix') and tmpdir is not None:
            import os, glob
            base = os.path.join(tmpdir, u'saved-%d' % len(os.listdir(tmpdir)))
            if via == 'name':
                doc.save(base + u'.zip'); path = base + u'.zip'
            else:
                doc.save(base, True)
                hits = glob.glob(base + u'.*')
                path = hits[0] if len(hits) == 1 else base
            with open(path, 'rb') as f:
                raw = f.read()
            os.unlink(path)
        elif via == 'write':
            buf = io.BytesIO()
            doc.write(buf)          # the ZipFile is closed when write() drops it
            import gc; gc.collect()
            raw = buf.getvalue()
        else:
            buf = io.BytesIO()
            doc.save(buf)
            raw = buf.getvalue()
    return raw, [str(x.message) for x in w]


# --------------------------------------------------------------------------- observation of an archive
class Archive(object):
    pass


def parse_manifest(data):
    """META-INF/manifest.xml -> [(full-path, media-type)] in document order, duplicates kept (expat)"""
    out = []
    p = xml.parsers.expat.ParserCreate(namespace_separator=' ')
    def st(name, attrs):
        if name == MANIFESTNS + ' file-entry':
            out.append((attrs.get(MANIFESTNS + ' full-path'), attrs.get(MANIFESTNS + ' media-type')))
    p.StartElementHandler = st
    p.Parse(data, True)
    return out


def xml_root(data):
    """(namespace, local) of the document element, or None if not well-formed"""
    res = []
    p = xml.parsers.expat.ParserCreate(namespace_separator=' ')
    def st(name, attrs):
        if not res:
            res.append(tuple(name.split(' ', 1)) if ' ' in name else (None, name))
    p.StartElementHandler = st
    try:
        p.Parse(data, True)
    except xml.parsers.expat.ExpatError:
        return None
    return res[0] if res else None


def object_refs(data):
    """draw:object elements of a content.xml: [(draw:name of the enclosing frame, xlink:href)]"""
    out = []; frames = []
    p = xml.parsers.expat.ParserCreate(namespace_separator=' ')
    def st(name, attrs):
        if name == DRAWNS + ' frame':
            frames.append(attrs.get(DRAWNS + ' name'))
        elif name == DRAWNS + ' object':
            out.append((frames[-1] if frames else None, attrs.get(XLINKNS + ' href')))
    def en(name):
        if name == DRAWNS + ' frame':
            frames.pop()
    p.StartElementHandler = st; p.EndElementHandler = en
    p.Parse(data, True)
    return out


def read_archive(raw):
    a = Archive()
    a.raw = raw
    # first local file header, straight from the bytes at offset 0
    h = {}
    if len(raw) >= 30:
        sig, ver, flags, method, mtime, mdate, crc, csize, usize, nlen, xlen = struct.unpack('<4sHHHHHIIIHH', raw[:30])
        h = {'sig': sig, 'flags': flags, 'method': method, 'csize': csize, 'usize': usize, 'nlen': nlen, 'xlen': xlen,
             'name': raw[30:30 + nlen], 'data': raw[30 + nlen + xlen:30 + nlen + xlen + csize]}
    a.first = h
    z = zipfile.ZipFile(io.BytesIO(raw))
    a.members = []
    for zi in z.infolist():
        with z.open(zi) as f:
            a.members.append((zi.filename, zi.compress_type, zi.extra, f.read()))
    z.close()
    a.names = [m[0] for m in a.members]
    a.manifest = None
    for n, _, _, data in a.members:
        if n == 'META-INF/manifest.xml':
            a.manifest = parse_manifest(data)     # the last one, as every zip reader resolves a name
    return a


def markers_in(data):
    return sorted(set(int(x) for x in MARK.findall(data)))


PARTROOT = {'styles': 'document-styles', 'content': 'document-content', 'settings': 'document-settings', 'meta': 'document-meta'}


def describe_member(data, token, files, marker_of):
    """render the real bytes of a member in the vocabulary of the model's content token
    (so that two equal strings mean: same bytes / the XML part of that kind of that object)"""
    if token.startswith('p:'):
        _, kind, id = token.split(':')
        root = xml_root(data)
        if root != (OFFICENS, PARTROOT[kind]):
            return 'p:?root=%r' % (root,), 'p:%s:%s' % (kind, id)
        want = marker_of.get(int(id))
        if kind == 'meta' or want is None:
            return 'p:%s:%s' % (kind, id), 'p:%s:%s' % (kind, id)
        got = markers_in(data)
        return 'p:%s:marks%s' % (kind, got), 'p:%s:marks%s' % (kind, [want])
    if token == 'm':
        try:
            parse_manifest(data); return 'm', 'm'
        except xml.parsers.expat.ExpatError:
            return 'm:not-wellformed', 'm'
    if token.startswith('b:'):
        return 'sha1:' + hashlib.sha1(data).hexdigest(), 'sha1:' + hashlib.sha1(dec_bytes(token[2:])).hexdigest()
    if token.startswith('f:'):
        fn = dec_str(token[2:])
        return 'sha1:' + hashlib.sha1(data).hexdigest(), 'sha1:' + hashlib.sha1(files.get(fn, b'<no such file>')).hexdigest()
    return '?', token


def compare_listing(chk, case, answer, arch, files, marker_of, what):
    """correspondence: model listing (driver answer after 'ok ') vs the real archive. Returns True if equal."""
    z, m = parse_listing(answer.split())
    impl, model = [], []
    for i in range(max(len(z), len(arch.members))):
        if i < len(z) and i < len(arch.members):
            name, ctype, extra, data = arch.members[i]
            got, want = describe_member(data, z[i][3], files, marker_of)
            impl.append('Z %r %s extra=%s %s' % (name, {0: 'S', 8: 'D'}.get(ctype, ctype), enc_bytes(extra), got))
            model.append('Z %r %s extra=%s %s' % (z[i][0], z[i][1], z[i][2], want))
        elif i < len(z):
            model.append('Z %r %s' % (z[i][0], z[i][1])); impl.append('Z <none>')
        else:
            impl.append('Z %r' % (arch.members[i][0],)); model.append('Z <none>')
    impl += ['M %r %r' % e for e in (arch.manifest or [])]
    model += ['M %r %r' % (p, t) for p, t, _ in m]
    # the raw first local header must say the same as the model's first entry
    if z:
        h = arch.first
        impl.append('H %r method=%s xlen=%s %r' % (h.get('name'), h.get('method'), h.get('xlen'), h.get('data')))
        model.append('H %r method=%s xlen=%s %r' % (z[0][0].encode('utf-8'), {'S': 0, 'D': 8}[z[0][1]],
                                                     0 if z[0][2] == '-' else len(z[0][2].split('.')),
                                                     dec_bytes(z[0][3][2:]) if z[0][3].startswith('b:') else None))
    chk.corr()
    if impl != model:
        first = next((i for i in range(min(len(impl), len(model))) if impl[i] != model[i]), min(len(impl), len(model)))
        chk.corr_diff(case, impl[max(0, first - 1):first + 3], model[max(0, first - 1):first + 3], what)
        return False
    return True


# --------------------------------------------------------------------------- oracle (property text only)
def folder_of_objects(arch):
    """where each object's content.xml is: marker -> [folder]  (folder '' = package root)"""
    where = {}
    for name, _, _, data in arch.members:
        if name == 'content.xml' or name.endswith('/content.xml'):
            for mk in markers_in(data):
                where.setdefault(mk, []).append(name[:-len('content.xml')])
    return where


def oracle_c03(arch, top, loaded=False):
    """C03 on the real archive.  `top` is the MDoc mirror (what the harness registered through the API).
    Returns a list of (signature, detail)."""
    bad = []
    sfx = '-after-load' if loaded else ''
    mt = top.mimetype
    h = arch.first
    # -- first entry
    if not (h.get('sig') == b'PK\x03\x04' and h.get('name') == b'mimetype' and h.get('method') == 0 and h.get('xlen') == 0
            and h.get('data') == mt.encode('utf-8') and h.get('csize') == h.get('usize') == len(mt.encode('utf-8'))):
        bad.append(('first-entry', 'first local header %r' % ({k: h.get(k) for k in ('sig', 'name', 'method', 'xlen', 'data')},)))
    if not arch.members or arch.members[0][0] != 'mimetype' or arch.members[0][1] != 0 or arch.members[0][2] != b'' \
            or arch.members[0][3] != mt.encode('utf-8'):
        bad.append(('first-entry', 'first central entry %r' % (arch.members[:1],)))
    # -- required members, no duplicate names
    for req in ('content.xml', 'styles.xml', 'meta.xml', 'META-INF/manifest.xml'):
        if req not in arch.names:
            bad.append(('required-member-missing', req))
    dups = sorted(set(n for n in arch.names if arch.names.count(n) > 1))
    if dups:
        reserved = [n for n in dups if n in ('mimetype', 'META-INF/manifest.xml')]
        if loaded and reserved == dups:
            bad.append(('reserved-name-listed-in-loaded-manifest', 'member names twice: %r' % dups))
        else:
            bad.append(('duplicate-member-name', 'member names twice: %r' % dups))
    if arch.manifest is None:
        return bad
    man = arch.manifest
    files = [p for p, _ in man if not p.endswith('/')]
    folders = [(p, t) for p, t in man if p.endswith('/')]
    members = [n for n in arch.names if n not in ('mimetype', 'META-INF/manifest.xml') and not n.endswith('/')]
    # -- exactness for files: same multiset
    for n in sorted(set(members)):
        if files.count(n) < members.count(n):
            bad.append(('manifest-omits-member' + sfx, n))
    for p in sorted(set(files)):
        if members.count(p) < files.count(p):
            if loaded and p in ('mimetype', 'META-INF/manifest.xml'):
                bad.append(('reserved-name-listed-in-loaded-manifest', 'manifest lists %r' % p))
            else:
                bad.append(('manifest-lists-missing-file' + sfx, p))
    # -- folder entries: '/' or a prefix of some member; no path listed twice
    # (a folder entry for an empty directory - LibreOffice writes "Configurations2/images/Bitmaps/" - is not a file
    #  and is not judged; it is only counted)
    arch.empty_folder_entries = [p for p, t in folders if p != '/' and not any(n.startswith(p) for n in arch.names)]
    paths = [p for p, _ in man]
    dupp = sorted(set(p for p in paths if paths.count(p) > 1))
    if dupp:
        if loaded and all(p.endswith('/') for p in dupp):
            bad.append(('duplicate-folder-entry-after-load', 'manifest lists %r more than once' % dupp))
        elif not (loaded and all(p in ('mimetype', 'META-INF/manifest.xml') or p.endswith('/') for p in dupp)):
            bad.append(('manifest-duplicate-entry' + sfx, 'manifest lists %r more than once' % dupp))
    # -- root media type (every entry for '/')
    roots = [t for p, t in man if p == '/']
    if not roots:
        bad.append(('root-entry-missing', 'no "/" entry'))
    elif roots[0] != mt:
        bad.append(('root-mediatype', 'root entry carries %r, document is %r' % (roots[0], mt)))
    elif any(t != mt for t in roots):
        bad.append(('duplicate-folder-entry-after-load' if loaded else 'root-mediatype',
                    'root entries carry %r, document is %r' % (roots, mt)))
    # -- every object: found by its marker, folder declared with its media type, pictures under the returned href
    where = folder_of_objects(arch)
    mdict = {}
    for p, t in man:
        mdict.setdefault(p, []).append(t)
    bytes_at = {}
    for n, _, _, data in arch.members:
        bytes_at.setdefault(n, data)
    for o in top.walk():
        fs = [''] if (o is top and o.marker is None) else where.get(o.marker, [])
        if len(fs) != 1:
            bad.append(('object-not-stored-once' + sfx, 'object %d (marker %d) has content.xml at %r' % (o.id, o.marker, fs)))
            continue
        F = fs[0]
        if (F + 'styles.xml') not in bytes_at or (o.marker is not None and o.marker not in markers_in(bytes_at[F + 'styles.xml'])):
            bad.append(('object-styles-missing' + sfx, 'object %d: no styles.xml of its own in %r' % (o.id, F)))
        if o is not top and mdict.get(F) != [o.mimetype]:
            bad.append(('object-mediatype' + sfx, 'folder %r declared %r, object is %r' % (F, mdict.get(F), o.mimetype)))
        for href, (k, data, pmt) in sorted(o.final_pictures().items()):
            want = o.files[data] if k == 'F' else data
            if bytes_at.get(F + href) != want:
                bad.append(('picture-missing' + sfx, 'object %d picture %r not byte-identical at %r (present: %s)' % (
                    o.id, href, F + href, (F + href) in bytes_at)))
            if mdict.get(F + href) != [pmt]:
                bad.append(('picture-mediatype' + sfx, 'object %d picture %r: manifest says %r at %r, registered %r' % (
                    o.id, href, mdict.get(F + href), F + href, pmt)))
    return bad


def carried_of(arch0):
    """what a package that is about to be loaded holds besides the members every save writes afresh: its extra members, the
    pictures and the other files of its embedded objects.  Read from the package itself (zipfile listing + manifest through
    expat).  -> [(path, owner folder, path inside the owner, media type or None if not listed exactly once, bytes)]
    A file belongs to the object of the longest chain of listed "Object <n>/" folders in front of its path."""
    man = arch0.manifest or []
    folders = set(p for p, _ in man if p.endswith('/'))
    out = []
    for p in sorted(set(q for q, _ in man)):
        if p.endswith('/') or arch0.names.count(p) != 1:
            continue
        if p in ('mimetype', 'META-INF/manifest.xml') or p.endswith('META-INF/documentsignatures.xml'):
            continue            # written afresh / signatures are dropped on purpose
        owner = ''
        while True:
            m = re.match('Object [0-9]+/', p[len(owner):])
            if m is None or owner + m.group(0) not in folders:
                break
            owner += m.group(0)
        rel = p[len(owner):]
        if rel in ('content.xml', 'styles.xml', 'settings.xml') or (owner == '' and rel in ('meta.xml', 'Thumbnails/thumbnail.png')):
            continue            # parsed and generated again / set through addThumbnail
        mts = [t for q, t in man if q == p]
        out.append((p, owner, rel, mts[0] if len(mts) == 1 else None, [d for n, _, _, d in arch0.members if n == p][0]))
    return out


def oracle_carried(arch0, arch, skip=()):
    """C03 for a document that came from load(): "the manifest lists exactly the files in the archive, each under the path where
    its bytes actually are" is said about the package of THIS document - the extra members it was loaded with and the files of
    its embedded objects are files of that package: each is in the archive under its own path, byte-identical, listed with the
    media type it was loaded with.  `skip`: paths the caller registered anew through the API after the load."""
    bad = []
    data, mdict = {}, {}
    for n, _, _, d in arch.members:
        data.setdefault(n, []).append(d)        # a name that occurs twice is another clause's business: any occurrence counts here
    for p_, t in (arch.manifest or []):
        mdict.setdefault(p_, []).append(t)
    for p, owner, rel, mt, b in carried_of(arch0):
        if p in skip:
            continue
        what = 'object-file' if owner else 'extra-member'
        if b not in data.get(p, []):
            elsewhere = sorted(n for n, ds in data.items() if b in ds and n.endswith('/' + rel))[:3]
            bad.append((what + '-not-at-its-path-after-load', '%r of the loaded package is %s at that path in the saved package%s' % (
                p, 'different' if p in data else 'not', (' (the bytes are at %r)' % elsewhere) if elsewhere else '')))
        elif mt is not None and mdict.get(p) != [mt]:
            bad.append((what + '-mediatype-after-load', '%r was loaded with media type %r, the saved manifest says %r' % (p, mt, mdict.get(p))))
    return bad


def resolve_ref(arch, ref, marker, mimetype):
    """does "./X" name a folder X/ that holds this object's content.xml + styles.xml and that the manifest
    declares with the object's media type?  -> None if yes, else a description"""
    if not ref.startswith('./'):
        return 'reference %r does not start with ./' % ref
    F = ref[2:] + '/'
    data = dict((n, d) for n, _, _, d in arch.members)
    c, s = data.get(F + 'content.xml'), data.get(F + 'styles.xml')
    if c is None or s is None:
        return 'folder %r has no content.xml/styles.xml' % F
    if markers_in(c) != [marker] and marker not in markers_in(c):
        return 'folder %r holds the content of object %r, not %d' % (F, markers_in(c), marker)
    if marker not in markers_in(s):
        return 'folder %r holds the styles of object %r, not %d' % (F, markers_in(s), marker)
    decl = [t for p, t in (arch.manifest or []) if p == F]
    if decl != [mimetype]:
        return 'manifest declares %r as %r, object is %r' % (F, decl, mimetype)
    return None


# --------------------------------------------------------------------------- foreign packages for load()
def manifest_xml(entries):
    from xml.sax.saxutils import quoteattr
    s = ['<?xml version="1.0" encoding="UTF-8"?>\n<manifest:manifest xmlns:manifest="%s" manifest:version="1.2">' % MANIFESTNS]
    for p, t in entries:
        if t is None:
            s.append(' <manifest:file-entry manifest:full-path=%s/>' % quoteattr(p))
        else:
            s.append(' <manifest:file-entry manifest:full-path=%s manifest:media-type=%s/>' % (quoteattr(p), quoteattr(t)))
    s.append('</manifest:manifest>')
    return '\n'.join(s).encode('utf-8')


def make_package(ps):
    """ps: {'mimetype': str|None, 'manifest': [(path, mediatype)], 'members': [(name, bytes)]} -> zip bytes.
    Written with zipfile directly: member order as given, manifest exactly as given."""
    buf = io.BytesIO()
    z = zipfile.ZipFile(buf, 'w')
    if ps['mimetype'] is not None:
        z.writestr(zipfile.ZipInfo('mimetype'), ps['mimetype'].encode('utf-8'))
    for n, b in ps['members']:
        zi = zipfile.ZipInfo(n); zi.compress_type = zipfile.ZIP_DEFLATED
        z.writestr(zi, b)
    zi = zipfile.ZipInfo('META-INF/manifest.xml'); zi.compress_type = zipfile.ZIP_DEFLATED
    z.writestr(zi, manifest_xml(ps['manifest']))
    z.close()
    return buf.getvalue()


def load_request(ps, settings_nonempty):
    """the `load` line for drv_pkg; XML parts travel as a 3-byte placeholder (the model never looks inside)"""
    t = ['load', opt_str(ps['mimetype']), str(len(ps['manifest']))]
    for p, mt in ps['manifest']:
        t += [enc_str(p), enc_str(mt)]
    mem = list(ps['members'])
    if ps['mimetype'] is not None:
        mem.insert(0, (u'mimetype', ps['mimetype'].encode('utf-8')))
    mem.append((u'META-INF/manifest.xml', manifest_xml(ps['manifest'])))
    t.append(str(len(mem)))
    keys = set(p_ for p_, _t in ps['manifest'])
    for n, b in mem:
        # the parts load() parses travel as a 3-byte placeholder (transport only: a wrong guess here shows up as a difference);
        # everything load() keeps verbatim (a sub-document's meta.xml, the parts of a folder that is not a listed object folder) in full
        rest = n
        while True:
            mm = re.match(u'Object [0-9]+/', rest)
            if mm is None or n[:len(n) - len(rest)] + mm.group(0) not in keys:
                break
            rest = rest[len(mm.group(0)):]
        parsed = n == u'meta.xml' or rest in (u'content.xml', u'styles.xml', u'settings.xml')
        short = b'<x>' if parsed and xml_root(b) is not None and xml_root(b)[0] == OFFICENS else b
        t += [enc_str(n), enc_bytes(short)]
    t.append(str(len(settings_nonempty)))
    t += [enc_str(n) for n in settings_nonempty]
    return ' '.join(t)


def own_files(F, n, kind):
    """what may lie below an object folder F besides its parts, with the SAME relative names at every level: a meta.xml of its own,
    a thumbnail, an ObjectReplacements-like file, pictures (also in a sub-folder), files named like top-level members, a
    configuration folder.  -> ([(path, mediatype, bytes)], [(directory path, mediatype)])"""
    k = n % 251
    meta = new_real(kind, n, False).metaxml().encode('utf-8')
    files = [(u'meta.xml', u'text/xml', meta), (u'extra.bin', u'application/x-thing', bytes([k, 9])),
             (u'Thumbnails/thumbnail.png', u'image/png', bytes([k, 1])), (u'ObjectReplacements/Object 1', u'application/x-openoffice-gdimetafile', bytes([k, 2])),
             (u'Pictures/own.png', u'image/png', bytes([k, 4])), (u'Pictures/sub/deep.png', u'image/png', bytes([k, 3])),
             (u'mimetype', u'', KINDS[kind].encode('utf-8')), (u'META-INF/manifest.xml', u'text/xml', b'<m/>'),
             (u'Configurations2/menubar/menubar.xml', u'', bytes([60, k, 62]))]
    dirs = [(u'Thumbnails/', u''), (u'Configurations2/', u'application/vnd.sun.xml.ui.configuration')]
    return [(F + r, t, b) for r, t, b in files], [(F + r, t) for r, t in dirs]


def parts_of(kind, marker, settings):
    """XML parts of a fresh real document, to be put into a hand-made package"""
    d = new_real(kind, marker, settings)
    out = {'content.xml': d.contentxml(), 'styles.xml': d.stylesxml().encode('utf-8'), 'meta.xml': d.metaxml().encode('utf-8')}
    if settings:
        out['settings.xml'] = d.settingsxml().encode('utf-8')
    return out

# -*- coding: utf-8 -*-
"""Prolog texts for the pre-processing of load() (`__fixXmlPart`, /repo fix e859a9c): shared by harness/c13.py (fault matrix:
the member must be refused) and harness/c05.py (correspondence model vs real function, character for character).

The defect that made this class necessary: the function took the FIRST `<name` of the text for the document element.  Inside an
entity literal / a comment / a processing instruction of the prolog that is not a start tag; the xmlns declarations were spliced
into the literal, the parser failed before it saw the entity declaration, the failure was only printed, load() returned.

`shapes()` are LEGAL XML prologs (XML 1.0 [22] prolog, [28] doctypedecl, [28b] intSubset) that declare the general entity `e`
and carry `<name`, `"`, `'`, `>` and `]` (also as `]>`) wherever the grammar allows such characters outside markup proper:
  entity literal (either quote)  x  further items of the internal subset (comment / processing instruction in front of or behind
  the declaration, a parameter entity literal, an ExternalID literal)  x  items around the DOCTYPE (comment in front, processing
  instruction behind, byte order mark).
`soup()` are token soups: malformed / unterminated prologs too, for the model-vs-`re` comparison only.
"""

BOM = u'\ufeff'

# entity literal around the declared text %s; the replacement text is well-formed content, so `&e;` may be used in element text
LITERALS = [
    ('dq-tag', u'"<b>%s</b>"'),
    ('dq-close', u'"<b>x]>%s<c>y</c></b>"'),                # `]>` then another `<name` inside the literal
    ('dq-apos', u'"<b c=\'1\'>%s]</b> > "'),
    ('sq-tag', u"'<b a=\"1\">%s</b>'"),
    ('sq-close', u"'<b>]>\"%s\"</b>'"),
]

# further items of the internal subset: (name, in front of the entity declaration, behind it)
SUBSET = [
    ('only', u'', u''),
    ('comment-front', u'<!-- <c a="]>"> -->', u''),
    ('comment-behind', u'', u'<!-- " <c> ]> -->'),
    ('comment-apos', u"<!-- ' <c> -->", u''),
    ('pi-front', u'<?pi " <d ]> ?>', u''),                    # one `"`: shifts a quote pairing that does not know PIs (dd213f2)
    ('pi-apos-behind', u'', u"<?pi ' ]><d> ?>"),
    ('pe-literal', u'<!ENTITY % p \'<d>"]>\'>', u''),
    ('attlist', u'<!ATTLIST x a CDATA "]> f">', u'<!ELEMENT x ANY>'),
]

# items around the DOCTYPE: (name, byte order mark, between XML declaration and DOCTYPE, ExternalID, between DOCTYPE and root)
OUTER = [
    ('plain', u'', u'', u'', u''),
    ('comment-before', u'', u'<!-- <x a="1"> \' -->\n', u'', u''),
    ('pi-after', u'', u'', u'', u'<?q <e "?>\n'),
    ('bom-both', BOM, u'\n<!-- <x> " --> ', u'', u' <?q \'<e>?><!-- <g> -->'),
    ('system-id', u'', u'', u' SYSTEM \'z">[<y>\'', u'\n'),
]


def shapes():
    """[(name, bom, text between the XML declaration and the root element with %s where the declared entity text goes)]"""
    out = []
    for ln, lit in LITERALS:
        for sn, front, behind in SUBSET:
            for on, bom, pre, extid, post in OUTER:
                dt = (u'<!DOCTYPE x' + extid + u' [' + front.replace(u'%', u'%%') + u'<!ENTITY e ' + lit + u'>' +
                      behind.replace(u'%', u'%%') + u']>')
                out.append(('%s/%s/%s' % (ln, sn, on), bom, pre.replace(u'%', u'%%') + dt + post.replace(u'%', u'%%')))
    return out


SHAPES = shapes()
SHAPE = dict((s[0], s) for s in SHAPES)


def apply_shape(text, decl, name, entity_text):
    """`text` = decl + root element …  ->  bom + XML declaration + prolog of the shape + root element …"""
    _, bom, mid = SHAPE[name]
    assert text.startswith(decl)
    return bom + decl.rstrip(u'\n') + mid % entity_text + text[len(decl):]


def quick_slice(n, offset, per):
    """`per` shape names for the n-th consumer: consecutive consumers walk through all shapes"""
    return [SHAPES[(offset + n * per + j) % len(SHAPES)][0] for j in range(per)]


# ------------------------------------------------------------------------------------------------ token soups
TOKENS = [u'<!DOCTYPE', u' x ', u'[', u']', u'>', u'"', u"'", u'<!--', u'-->', u'<?', u'?>', u'<b', u'<r a="1">', u'<!ENTITY e ',
          u' ', u'\n', BOM, u'SYSTEM', u'<', u'!', u'-', u'?', u'x', u'/', u'</r>', u'<r/>', u"<?xml version='1.0'?>", u'\xa0', u'\x0b',
          u' xmlns:meta="m"', u'\txmlns:dc = "d"', u'--', u'->', u']>', u'<r', u'<office:document-content', u' ']


def soup(rng, n):
    """n random texts: a third starts inside an internal subset, where the matcher of the code backtracks"""
    out = []
    for i in range(n):
        k = rng.randrange(1, 16)
        body = u''.join(rng.choice(TOKENS) for _ in range(k))
        head = [u'', u'', u"<?xml version='1.0'?>\n<!DOCTYPE x [", BOM + u'<!DOCTYPE x ['][i % 4 if i % 3 == 0 else 0]
        out.append(head + body)
    return out


def root_variants(text, root_open):
    """the member text with its nine looked-for xmlns declarations as they are / all removed / every second removed, so
    that the function really splices (root_open: the text of the root start tag up to and including its `>`)"""
    import re
    assert root_open in text
    decls = re.findall(u' xmlns:(?:meta|config|dc|style|svg|fo|draw|table|form)="[^"]*"', root_open)
    none = root_open
    some = root_open
    for i, d in enumerate(decls):
        none = none.replace(d, u'', 1)
        if i % 2:
            some = some.replace(d, u'', 1)
    return [text, text.replace(root_open, none, 1), text.replace(root_open, some, 1)]


# ------------------------------------------------------------------------------------------------ a member to put the prologs on
DECL = u"<?xml version='1.0' encoding='UTF-8'?>\n"
ROOT_OPEN = (u'<office:document-content xmlns:office="urn:oasis:names:tc:opendocument:xmlns:office:1.0"'
             u' xmlns:text="urn:oasis:names:tc:opendocument:xmlns:text:1.0"'
             u' xmlns:meta="urn:oasis:names:tc:opendocument:xmlns:meta:1.0" xmlns:style="urn:oasis:names:tc:opendocument:xmlns:style:1.0"'
             u' xmlns:dc="http://purl.org/dc/elements/1.1/" xmlns:config="urn:oasis:names:tc:opendocument:xmlns:config:1.0"'
             u' xmlns:table="urn:oasis:names:tc:opendocument:xmlns:table:1.0" xmlns:svg="urn:oasis:names:tc:opendocument:xmlns:svg-compatible:1.0"'
             u' xmlns:fo="urn:oasis:names:tc:opendocument:xmlns:xsl-fo-compatible:1.0" xmlns:draw="urn:oasis:names:tc:opendocument:xmlns:drawing:1.0"'
             u' xmlns:form="urn:oasis:names:tc:opendocument:xmlns:form:1.0" office:version="1.2">')
MEMBER = (DECL + ROOT_OPEN + u'<office:body><office:text><text:p>a &e; b</text:p></office:text></office:body></office:document-content>')


def member_texts():
    """[(shape name, variant 0..2, text, offset of the end of the document element's name)]: every shape on MEMBER, the root
    declaring all / none / every second of the nine prefixes"""
    out = []
    for name, _, _ in SHAPES:
        t = apply_shape(MEMBER, DECL, name, u'EXP')
        for v, tv in enumerate(root_variants(t, ROOT_OPEN)):
            out.append((name, v, tv, tv.index(u'<office:document-content') + len(u'<office:document-content')))
    return out


# ------------------------------------------------------------------------------------------------ unterminated subsets (time)
# An internal subset that never ends, full of comments / processing instructions: a matcher that can read `<!--` in two ways
# (d63f155: `<!--.*?-->` or `[^\]"']`) tries every combination before it gives up - exponential.  Ordered by size, so that the
# first slow one is the smallest.
def slow_texts(entity=False):
    """[(name, text)]: not XML (the DOCTYPE never ends, or ends late); with entity=True the subset first declares the entity `e`"""
    head = u'<!DOCTYPE x [' + (u'<!ENTITY e "v">' if entity else u'')
    out = []
    for n in (8, 12, 14, 16, 18, 24, 40, 400):
        out.append(('comments-%d' % n, head + u'<!-- -->' * n + u'<r/>'))
        out.append(('pis-%d' % n, head + u'<?p ?>' * n + u'<r/>'))
        out.append(('mixed-%d' % n, head + u'<!-- --><?p ?>' * n + u'" <r/>'))
        out.append(('subset-closed-no-gt-%d' % n, head + u'<!-- ]> -->' * n + u']<r/>'))
        out.append(('many-subsets-%d' % n, head + u'<!-- -->]' + u'[<!-- -->]' * (n - 1) + u'<r/>'))
        out.append(('terminated-%d' % n, head + u'<!-- " --><?p \' ?>' * n + u']><r/>'))
    return out


SLOW_LIMIT = 2.0        # seconds for ONE call of the function under test

_PROBE = r'''
import sys, time
sys.path.insert(0, sys.argv[1]); sys.path.insert(0, sys.argv[2])
sys.dont_write_bytecode = True
import prologs, odf.opendocument
f = odf.opendocument.__dict__['__fixXmlPart']
for ent in (False, True):
    for name, text in prologs.slow_texts(ent):
        print('start %s %d' % (name, ent)); sys.stdout.flush()
        t0 = time.time(); f(text); dt = time.time() - t0
        print('done %s %d %.3f' % (name, ent, dt)); sys.stdout.flush()
        if dt > float(sys.argv[3]):
            sys.exit(0)
'''


def probe_slow(repo, python=None, budget=12.0):
    """run `__fixXmlPart` of `repo` on slow_texts() in a child process (a hanging call cannot hang the check).
    -> (number of calls finished in time, None | (name, entity, seconds or None when the child had to be killed))"""
    import os, subprocess, sys
    here = os.path.dirname(os.path.abspath(__file__))
    try:
        p = subprocess.run([python or sys.executable, '-c', _PROBE, repo, here, str(SLOW_LIMIT)], stdout=subprocess.PIPE,
                           stderr=subprocess.STDOUT, timeout=budget, universal_newlines=True)
        out = p.stdout
    except subprocess.TimeoutExpired as e:
        out = e.stdout or u''
        if isinstance(out, bytes):
            out = out.decode('utf-8', 'replace')
    ok = 0
    started = None
    for line in out.splitlines():
        w = line.split()
        if len(w) == 3 and w[0] == 'start':
            started = (w[1], int(w[2]), None)
        elif len(w) == 4 and w[0] == 'done':
            if float(w[3]) > SLOW_LIMIT:
                return ok, (w[1], int(w[2]), float(w[3]))
            ok += 1
            started = None
        elif line.strip():
            return ok, ('probe-error: ' + line.strip()[:200], 0, None)
    if started is not None:
        return ok, started
    if ok != 2 * len(slow_texts()):
        return ok, ('probe-incomplete', 0, None)
    return ok, None


# ------------------------------------------------------------------------------------------------ DOCTYPEs of real producers
# Document type declarations as real (legacy) producers wrote them - OpenOffice.org 1.x / StarOffice (`office.dtd`, `Manifest.dtd`,
# `math.dtd` next to the package), W3C and OASIS vocabularies that get embedded - EACH COMBINED with an internal subset.  A reader
# that "knows" such a DOCTYPE (strips it, skips it, treats the file as an old format) must still see what the internal subset
# declares.  Additive: SHAPES above is unchanged.
LEGACY_IDS = [
    ('ooo-office', u' PUBLIC "-//OpenOffice.org//DTD OfficeDocument 1.0//EN" "office.dtd"'),
    ('w3c-xhtml', u' PUBLIC "-//W3C//DTD XHTML 1.0 Strict//EN" "http://www.w3.org/TR/xhtml1/DTD/xhtml1-strict.dtd"'),
    ('ooo-manifest', u' PUBLIC "-//OpenOffice.org//DTD Manifest 1.0//EN" "Manifest.dtd"'),
    ('w3c-mathml', u' PUBLIC "-//W3C//DTD MathML 2.0//EN" "http://www.w3.org/Math/DTD/mathml2/mathml2.dtd"'),
    ('ooo-math', u' PUBLIC "-//OpenOffice.org//DTD Modified W3C MathML 1.01//EN" "math.dtd"'),
    ('w3c-svg', u' PUBLIC "-//W3C//DTD SVG 1.1//EN" "http://www.w3.org/Graphics/SVG/1.1/DTD/svg11.dtd"'),
    ('ooo-office-sq', u" PUBLIC '-//OpenOffice.org//DTD OfficeDocument 1.0//EN' 'office.dtd'"),
    ('oasis-docbook', u' PUBLIC "-//OASIS//DTD DocBook XML V4.2//EN" "http://www.oasis-open.org/docbook/xml/4.2/docbookx.dtd"'),
    ('ooo-office-nl', u'\n  PUBLIC "-//OpenOffice.org//DTD OfficeDocument 1.0//EN"\n  "office.dtd"'),
    ('system-office', u' SYSTEM "office.dtd"'),
]

# internal subsets: (name, text with {ent} = declared entity text, {file} / {dtd} = URLs of the canary files, declares entities?)
LEGACY_SUBSETS = [
    ('ent', u' [<!ENTITY e "{ent}">]', 1),
    ('ent-lines', u'\n[\n<!ENTITY e "{ent}">\n]\n', 1),
    ('two-ents', u' [<!ENTITY a "1"><!ENTITY e "{ent}">]', 1),
    ('comment-gt-first', u' [<!-- > --><!ENTITY e "{ent}">]', 1),
    ('element-first', u' [<!ELEMENT x ANY><!ENTITY e "{ent}">]', 1),
    ('ext-general', u' [<!ENTITY e SYSTEM "{file}">]', 1),
    ('ext-param', u' [<!ENTITY % p SYSTEM "{dtd}"> %p;]', 1),
    ('ent-then-ext', u'[<!ENTITY a "{ent}"><!ENTITY e SYSTEM "{file}">]', 1),
    ('no-subset', u'', 0),                      # the legacy DOCTYPE alone: names an external DTD subset
]

LEGACY_NAMES = ['x', 'root']                    # DOCTYPE name: arbitrary / the name of the document element (as the producers wrote it)
LEGACY = [(i, s, n) for s, _, _ in LEGACY_SUBSETS for n in LEGACY_NAMES for i, _ in LEGACY_IDS]


def legacy_name(shape):
    return '%s/%s/%s' % shape


def apply_legacy(text, decl, shape, entity_text, file_url, dtd_url):
    """`text` = decl + root element ... -> XML declaration + legacy DOCTYPE (with internal subset) + root element ..."""
    import re
    idn, sn, nm = shape
    assert text.startswith(decl)
    rest = text[len(decl):]
    name = u'x' if nm == 'x' else re.match(u'<([^\\s/>]+)', rest).group(1)
    sub = dict((a, b) for a, b, _ in LEGACY_SUBSETS)[sn].replace(u'{ent}', entity_text).replace(u'{file}', file_url).replace(u'{dtd}', dtd_url)
    return decl + u'<!DOCTYPE ' + name + dict(LEGACY_IDS)[idn] + sub + u'>\n' + rest


def legacy_declares(shape):
    return dict((a, c) for a, _, c in LEGACY_SUBSETS)[shape[1]]

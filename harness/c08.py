# -*- coding: utf-8 -*-
"""C08 - the node tree stays structurally consistent under any sequence of edits.

proof:          lean/OdfModel/Props/C08.lean about the model lean/OdfModel/Dom.lean (heap of node records,
                removeChild / appendChild / insertBefore written assignment by assignment)
correspondence: the same op sequence on real odf nodes and on the driver drv_dom; the answer (ok / err <class>)
                and the full pointer snapshot (parent, previous, next, child list of every node) are compared
                after EVERY step
oracle:         (also: histories on a real document - edits in office:text and office:meta, clear_caches / rebuild_caches /
                build_caches / remove_from_caches, xml / metaxml / save / write / contentxml ... - with the same checker
                after every call whatever it raised)
                (a) a consistency checker over the real objects written from the property text, using only
                identity comparisons and Python lists; (b) a children-lists-only reference (dict id -> list)
                run in lock-step: expected child order after every step, expected NotFoundErr
"""
import json, itertools
import dom_common as D

ELEMS = ['P', 'Span', 'Section', 'List', 'ListItem', 'H']
EMPTY_ELEMS = ['LineBreak', 'S', 'Tab', 'TextProperties']     # grammar-empty kinds; several of them alive at once
# elements a document index is keyed by an attribute of: style:style (style:name).  Built with check_grammar=False they LACK
# that attribute; a 'setns' op of the prologue gives some of them a name (the empty string among them)
KEYED_ELEMS = ['Style']
STYLE_NAMES = [None, None, u'', u'N1', u'N2', u'Cafe\u0301']      # distinct names only: a clash would make the document rename a style


# ---------------------------------------------------------------------------------------------
# oracle (a): consistency of the real objects, straight from the property text
def consistency_problems(w):
    """every node has at most one parent and is listed exactly once among that parent's children;
    first/last/previous/next agree with child order; a detached node has no parent and no siblings;
    text nodes have no children"""
    probs = []
    nodes = w.nodes
    listed = dict((i, []) for i in nodes)          # id -> [(parent id, position)]
    for pi in sorted(nodes):
        p = nodes[pi]
        kids = list(p.childNodes)
        if p.nodeType in (3, 4) and len(kids):
            probs.append('text node %d has children' % pi)
        for pos, c in enumerate(kids):
            ci = w.nid(c)
            if ci == 'X':
                probs.append('child of %d at %d is not a node of the universe' % (pi, pos)); continue
            listed[ci].append((pi, pos))
            if c.parentNode is not p:
                probs.append('node %d is listed under %d but its parentNode is %s' % (ci, pi, w.nid(c.parentNode)))
            want_prev = kids[pos - 1] if pos > 0 else None
            want_next = kids[pos + 1] if pos + 1 < len(kids) else None
            if c.previousSibling is not want_prev:
                probs.append('previousSibling of %d is %s, child order says %s' % (ci, w.nid(c.previousSibling), w.nid(want_prev)))
            if c.nextSibling is not want_next:
                probs.append('nextSibling of %d is %s, child order says %s' % (ci, w.nid(c.nextSibling), w.nid(want_next)))
        fc = p.firstChild; lc = p.lastChild
        if fc is not (kids[0] if kids else None):
            probs.append('firstChild of %d is %s' % (pi, w.nid(fc)))
        if lc is not (kids[-1] if kids else None):
            probs.append('lastChild of %d is %s' % (pi, w.nid(lc)))
        if bool(p.hasChildNodes()) != bool(kids):
            probs.append('hasChildNodes of %d' % pi)
    for i in sorted(nodes):
        n = nodes[i]
        where = listed[i]
        if len(where) > 1:
            probs.append('node %d is listed %d times: %s' % (i, len(where), where))
        outside_root = i in w.roots
        if n.parentNode is None:
            if where:
                probs.append('node %d has no parent but is listed under %d' % (i, where[0][0]))
            if n.previousSibling is not None or n.nextSibling is not None:
                probs.append('detached node %d has siblings %s/%s' % (i, w.nid(n.previousSibling), w.nid(n.nextSibling)))
        elif not outside_root:
            pi = w.nid(n.parentNode)
            if pi == 'X':
                probs.append('parent of %d is outside the universe' % i)
            elif not where:
                probs.append('node %d has parent %d but is not among its children' % (i, pi))
    if w.attached:
        r = nodes[0]; b = w.body()
        if r.parentNode is not b or [c for c in b.childNodes if c is r] != [r] or len(b.childNodes) != 1 \
                or r.previousSibling is not None or r.nextSibling is not None:
            probs.append('the attached root lost its place under office:body')
    return probs


# ---------------------------------------------------------------------------------------------
# oracle (b): children lists only
class ListRef(object):
    def __init__(self):
        self.kids = {}
        self.kind = {}

    def parent_of(self, c):
        for p, l in self.kids.items():
            if c in l:
                return p
        return None

    def is_anc_or_self(self, a, x):
        while x is not None:
            if x == a:
                return True
            x = self.parent_of(x)
        return False

    def expect(self, op):
        """'ok' | 'NotFound' | 'DomError' (a node that cannot have children) | None (grammar decides)"""
        k = op[0]
        if k in ('new', 'setns'):      # creating a node, giving an element an attribute value
            return 'ok'
        p = op[1]
        if self.kind[p] != 'e':
            return 'DomError'
        if k == 'rm':
            return 'ok' if op[2] in self.kids[p] else 'NotFound'
        if k == 'insb':
            return 'ok' if (op[3] is None or op[3] in self.kids[p]) else 'NotFound'
        if k == 'append':
            return 'ok'
        return None

    def apply(self, op):
        k = op[0]
        if k == 'new':
            self.kids[op[2]] = []; self.kind[op[2]] = op[1]
        elif k == 'rm':
            self.kids[op[1]].remove(op[2])
        elif k in ('append', 'adde'):
            self.detach(op[2]); self.kids[op[1]].append(op[2])
        elif k == 'insb':
            if op[3] is None:
                self.detach(op[2]); self.kids[op[1]].append(op[2])
            elif op[3] != op[2]:
                self.detach(op[2])
                l = self.kids[op[1]]; l.insert(l.index(op[3]), op[2])
        elif k in ('addt', 'addc'):
            if not (k == 'addt' and op[3] == u''):
                self.kids[op[2]] = []; self.kind[op[2]] = 't' if k == 'addt' else 'c'
                self.kids[op[1]].append(op[2])

    def detach(self, c):
        for l in self.kids.values():
            while c in l:
                l.remove(c)


class StepOracle(object):
    """evaluated on the real objects after every step of a sequence"""
    def __init__(self, chk, attached, ops):
        self.chk = chk; self.attached = attached; self.ops = ops
        self.ref = ListRef()
        self.failed = None       # (signature, detail, index)
        self.moves = 0; self.raises = 0

    def fail(self, sig, idx, detail):
        if self.failed is None:
            self.failed = (sig, detail, idx)

    def __call__(self, w, idx, op, ans):
        import xml.dom
        ref = self.ref
        want = ref.expect(op)
        k = op[0]
        if ans.startswith('err Unexpected'):
            self.fail('unexpected-exception', idx, '%s answered %s' % (op, ans))
        if ans != 'ok':
            self.raises += 1
        if want == 'ok' and ans != 'ok':
            self.fail('legal-edit-refused', idx, '%s answered %s' % (op, ans))
        elif want == 'NotFound' and ans != 'err NotFound':
            self.fail('notfound-not-raised', idx, '%s: the node is not a child; answered %s' % (op, ans))
        elif want == 'DomError' and not (ans.startswith('err') and isinstance(getattr(w, 'last_exc', None), xml.dom.DOMException)):
            self.fail('childless-parent-accepted', idx, '%s answered %s' % (op, ans))
        elif want is None and ans not in ('ok', 'err IllegalChild', 'err IllegalText'):
            self.fail('unexpected-exception', idx, '%s answered %s' % (op, ans))
        if self.failed is not None:
            return True
        if ans == 'ok':
            if k in ('append', 'insb', 'adde') and ref.parent_of(op[2]) is not None:
                self.moves += 1
            ref.apply(op)
        # child order of every node against the list reference (a moved node has left its old position,
        # a refused call changed nothing)
        for i in sorted(w.nodes):
            got = [w.nid(c) for c in w.nodes[i].childNodes]
            if got != ref.kids.get(i, []):
                self.fail('child-order-differs-from-list-reference', idx,
                          'after %s (%s): children of %d are %s, the list reference has %s' % (op, ans, i, got, ref.kids.get(i)))
                break
        probs = consistency_problems(w)
        if probs:
            self.fail('tree-inconsistent', idx, 'after %s (%s): %s' % (op, ans, '; '.join(probs[:4])))
        return self.failed is not None


# ---------------------------------------------------------------------------------------------
# generators
def prologue(rng, attached, n_elem=5, n_text=3, n_cdata=1, same_text=False, kinds=None, names=None):
    """kinds: element kinds by position (exhaustive universes); names: {id: style:name} set after the creations"""
    ops = []
    named = dict(names or {})
    for i in range(n_elem):
        if attached and i == 0:
            ops.append(['new', 'e', 0, '@doctext'])
        elif kinds is not None:
            ops.append(['new', 'e', i, kinds[i]])
        elif rng and i >= n_elem - 2 and rng.random() < 0.5:
            # one or two of the elements are style:style elements: without style:name, with an empty or an ordinary one
            ops.append(['new', 'e', i, rng.choice(KEYED_ELEMS)])
            nm = STYLE_NAMES[(rng.randrange(len(STYLE_NAMES) // 2) * 2 + (i % 2)) % len(STYLE_NAMES)]       # distinct per position
            if nm is not None: named[i] = nm
        else:
            ops.append(['new', 'e', i, (rng.choice(EMPTY_ELEMS) if rng.random() < 0.3 else rng.choice(ELEMS)) if rng else ['Section', 'P', 'Span', 'P', 'Span'][i % 5]])
    for i in sorted(named):
        ops.append(['setns', i, D.STYLENS, u'name', named[i]])
    # text nodes with EQUAL content (all non-empty ones hold the same string), one or two of them empty
    if same_text:
        datas = [None] * n_text
    else:
        datas = [u'', None, None] if (rng is None or rng.random() < 0.5) else [u'', u'', None]
    for j in range(n_text):
        ops.append(['new', 't', n_elem + j, datas[j % len(datas)]])
    for j in range(n_cdata):
        ops.append(['new', 'c', n_elem + n_text + j, u'' if (rng and rng.random() < 0.5) else None])
    return ops


def random_sequence(rng, attached, maxlen):
    ops = prologue(rng, attached)
    ref = ListRef()
    for op in ops:
        ref.apply(op)
    nxt = len(ops)
    n = rng.randint(1, maxlen)
    elems = [i for i in ref.kind if ref.kind[i] == 'e']
    out = list(ops)
    tries = 0
    while len(out) - len(ops) < n and tries < 10 * n:
        tries += 1
        allids = sorted(ref.kids)
        # parents: mostly elements, sometimes a text node (Childless)
        p = rng.choice(elems) if rng.random() < 0.92 else rng.choice(allids)
        kind = rng.choice(['append'] * 5 + ['insb'] * 6 + ['rm'] * 4 + ['adde'] * 3 + ['addt', 'addt', 'addc'])
        pk = ref.kids.get(p, [])
        if kind == 'append':
            op = ['append', p, rng.choice(allids)]
        elif kind == 'insb':
            r = rng.random()
            refc = rng.choice(pk) if (pk and r < 0.65) else (None if r < 0.8 else rng.choice(allids))
            op = ['insb', p, rng.choice(allids), refc]
        elif kind == 'rm':
            op = ['rm', p, rng.choice(pk) if (pk and rng.random() < 0.7) else rng.choice(allids)]
        elif kind == 'adde':
            op = ['adde', p, rng.choice(elems)]
            if ref.kind[p] != 'e':
                continue            # a text node has no addElement
        else:
            if ref.kind[p] != 'e':
                continue
            op = [kind, p, nxt, rng.choice([u'x', u'', u'two words'])] if kind == 'addt' else ['addc', p, nxt, rng.choice([u'cd', u''])]
        # the property excludes inserting a node into its own descendant (or itself); the attached root stays put
        if op[0] in ('append', 'insb', 'adde'):
            if ref.is_anc_or_self(op[2], op[1]):
                continue
            if attached and op[2] == 0:
                continue
        out.append(op)
        # keep the generator's own picture of the tree (children lists) up to date
        want = ref.expect(op)
        if want == 'ok':
            ref.apply(op)
        elif want is None:
            # grammar decides: ask the tables the same way the library does
            ok = True
            if op[0] == 'adde':
                ok = _allowed(out, op[1], op[2])
            else:
                ok = _allows_text(out, op[1])
            if ok:
                ref.apply(op)
                if not (op[0] == 'addt' and op[3] == u''):
                    nxt += 1
    return out


_QN = {}
def _qname(fname):
    if fname not in _QN:
        if fname == '@doctext':
            _QN[fname] = (D.OFFICENS, u'text')
        else:
            _QN[fname] = D.factory(fname)(check_grammar=False).qname
    return _QN[fname]


def _fname_of(ops, i):
    for op in ops:
        if op[0] == 'new' and op[2] == i:
            return op[3]
    return None


def _allowed(ops, p, c):
    from odf import grammar
    ac = grammar.allowed_children.get(_qname(_fname_of(ops, p)))
    return ac is None or _qname(_fname_of(ops, c)) in ac


def _allows_text(ops, p):
    from odf import grammar
    return _qname(_fname_of(ops, p)) in grammar.allows_text


# ---------------------------------------------------------------------------------------------
def run_sequence(chk, drv, attached, ops, record=True):
    """lock-step run of one sequence: correspondence + both oracles.  Returns the StepOracle."""
    orc = StepOracle(chk, attached, ops)
    w, diff = D.run_lockstep(chk, drv, attached, ops, per_step=orc)
    if record:
        chk.corr(len(ops))
        if diff is not None:
            chk.corr_diff({'attached': attached, 'ops': ops[:diff['op_index'] + 1]}, diff['impl'], diff['model'],
                          'answer / pointer snapshot after op %d (%s)' % (diff['op_index'], diff['line']))
    orc.diff = diff
    return orc


def oracle_only(attached, ops):
    """the oracles without the driver (replay, shrinking)"""
    orc = StepOracle(None, attached, ops)
    w = D.World(attached)
    for idx, op in enumerate(ops):
        a = w.apply(op)
        orc(w, idx, op, a)
        if orc.failed:
            break
    return orc


def shrink(attached, ops, sig):
    """drop single non-creating ops while the same failure persists"""
    cur = list(ops)
    changed = True
    while changed:
        changed = False
        for i in range(len(cur) - 1, -1, -1):
            if cur[i][0] == 'new':
                continue
            cand = cur[:i] + cur[i + 1:]
            try:
                o = oracle_only(attached, cand)
            except Exception:
                continue
            if o.failed and o.failed[0] == sig:
                cur = cand[:o.failed[2] + 1]; changed = True
                break
    return cur


def report(chk, attached, ops, orc):
    sig, detail, idx = orc.failed
    ops = ops[:idx + 1]
    try:
        ops = shrink(attached, ops, sig)
    except RecursionError:
        pass
    chk.fail(sig, {'attached': attached, 'ops': ops}, detail)


# ---------------------------------------------------------------------------------------------
def exhaustive(chk, drv, attached, n_elem, n_text, max_depth, max_states, same_text=False, kinds=None, names=None):
    """every op of the alphabet applied in every distinct state reachable within max_depth steps
    (= all op sequences of length <= max_depth+1 over the universe, up to equality of the complete
    pointer state).  Returns (#states, #ops applied, closed?)."""
    pro = prologue(None, attached, n_elem=n_elem, n_text=n_text, n_cdata=0, same_text=same_text, kinds=kinds, names=names)
    if n_text >= 2 and not same_text:
        last = max(j for j, o in enumerate(pro) if o[0] == 'new')
        pro[last] = ['new', 'c', pro[last][2], None]       # one (empty) Text and one CDATASection
    ids = list(range(n_elem + n_text))
    alphabet = []
    for p in ids:
        for c in ids:
            alphabet.append(['append', p, c])
            alphabet.append(['rm', p, c])
            for r in [None] + ids:
                alphabet.append(['insb', p, c, r])
    def state_key(w):
        own = []
        for i in sorted(w.nodes):
            n = w.nodes[i]
            own.append(getattr(n, 'ownerDocument', None) is not None)
        return (w.snapshot(), tuple(own))
    w0 = D.World(attached)
    for op in pro:
        w0.apply(op)
    seen = {state_key(w0): []}
    frontier = [[]]
    napplied = 0
    closed = False
    for depth in range(max_depth + 1):
        nxt = []
        for path in frontier:
            # the list reference tells which ops the property excludes in this state
            ref = ListRef()
            for op in pro + path:
                if ref.expect(op) == 'ok':
                    ref.apply(op)
            for op in alphabet:
                if op[0] in ('append', 'insb'):
                    if ref.kind[op[1]] == 'e' and ref.is_anc_or_self(op[2], op[1]):
                        continue
                    if attached and op[2] == 0:
                        continue
                seq = pro + path + [op]
                orc = run_sequence(chk, drv, attached, seq, record=False)
                chk.corr(1)
                if orc.diff is not None:
                    chk.corr_diff({'attached': attached, 'ops': seq}, orc.diff['impl'], orc.diff['model'],
                                  'answer / pointer snapshot (%s)' % orc.diff['line'])
                napplied += 1
                chk.case(('x', attached, n_elem, n_text, json.dumps(path + [op])) + ((json.dumps([kinds, names], sort_keys=True),) if kinds else ()), nontrivial=True)
                chk.count('exhaustive_' + op[0])
                if orc.failed:
                    report(chk, attached, seq, orc)
                    continue
                if depth < max_depth and len(seen) < max_states:
                    w = D.World(attached)
                    for o in seq:
                        w.apply(o)
                    key = state_key(w)
                    if key not in seen:
                        seen[key] = path + [op]
                        nxt.append(path + [op])
        if not nxt:
            closed = depth < max_depth or closed
            break
        frontier = nxt
    return len(seen), napplied, closed


# ---------------------------------------------------------------------------------------------
# histories on a real DOCUMENT: tree edits in its sections (office:text, office:meta with several children and
# generators in every position), the document's public cache methods, and the rendering calls (oracle only)
def loaded_document():
    """a text document as load() gives it, read from a package in which a style under office:styles, one under
    office:automatic-styles LACK the style:name attribute and two others bear the empty name
    (the attribute is taken out of the written files with zipfile; load() does not check the grammar)"""
    import io, zipfile
    from odf.opendocument import OpenDocumentText, load
    from odf import style, text
    d = OpenDocumentText()
    for k, sec in enumerate((d.styles, d.automaticstyles)):
        sec.addElement(style.Style(name=u'ZZDROP%d' % k, family=u'paragraph'))
        sec.addElement(style.Style(name=u'ZZEMPTY%d' % k, family=u'paragraph'))
        sec.addElement(style.Style(name=u'Kept%d' % k, family=u'paragraph'))
    for st in d.automaticstyles.childNodes:              # automatic styles are written when something uses them
        d.text.addElement(text.P(text=u'a paragraph', stylename=st))
    buf = io.BytesIO(); d.write(buf)
    zin = zipfile.ZipFile(io.BytesIO(buf.getvalue()))
    out = io.BytesIO(); zout = zipfile.ZipFile(out, 'w', zipfile.ZIP_DEFLATED)
    dropped = 0
    for info in zin.infolist():
        body = zin.read(info.filename)
        if info.filename in ('styles.xml', 'content.xml'):
            t = body.decode('utf-8')
            for k in (0, 1):
                dropped += t.count(u' style:name="ZZDROP%d"' % k)
                t = t.replace(u' style:name="ZZDROP%d"' % k, u'').replace(u'style:name="ZZEMPTY%d"' % k, u'style:name=""')
            body = t.encode('utf-8')
        zout.writestr(info, body, zipfile.ZIP_STORED if info.filename == 'mimetype' else zipfile.ZIP_DEFLATED)
    zout.close()
    assert dropped >= 2, 'the written package does not spell the style names as expected'
    return load(io.BytesIO(out.getvalue()))


class DocUniverse(object):
    attached = False
    def __init__(self, loaded=False):
        from odf.opendocument import OpenDocumentText
        self.loaded = loaded
        self.doc = loaded_document() if loaded else OpenDocumentText()
        self.nodes = {}; self.idof = {}; self.roots = {}
        self.sweep()
        if loaded:
            # only the frame of a loaded document stays put; its styles, paragraphs and metadata move like any node
            d = self.doc
            self.skel = set(self.nid(n) for n in [d.topnode] + list(d.topnode.childNodes) + list(d.body.childNodes))
            return
        self.skel = set(self.nodes)
        self.skel.discard(self.nid(self.doc.meta.childNodes[0]))       # the generator may be moved like any node

    def nid(self, n):
        if n is None: return None
        return self.idof.get(id(n), 'X')

    def reg(self, n):
        if id(n) not in self.idof:
            i = len(self.nodes); self.nodes[i] = n; self.idof[id(n)] = i

    def sweep(self):
        """every node reachable from the top node gets an id (new generators appear after a rendering call)"""
        def walk(n, d):
            self.reg(n)
            if d < 60:
                for c in n.childNodes: walk(c, d + 1)
        walk(self.doc.topnode, 0)

    def make(self, spec):
        from odf.element import Text, CDATASection
        from odf import dc, meta
        k = spec[0]
        if k == 't': n = Text(spec[1])
        elif k == 'c': n = CDATASection(spec[1])
        elif k == 'Title': n = dc.Title(text=u'a title')
        elif k == 'Generator': n = meta.Generator(text=u'someone else')
        elif k == 'Creator': n = meta.InitialCreator(text=u'me')
        elif k == 'Style':
            # a style:style without style:name (spec[1] None), with the empty or an ordinary name
            n = D.factory('Style')(check_grammar=False)
            if spec[1] is not None: n.setAttrNS(D.STYLENS, u'name', spec[1])
        else: n = D.factory(k)(check_grammar=False)
        self.reg(n)
        if n.nodeType == 1:
            for c in n.childNodes: self.reg(c)
        return self.nid(n)

    def anc_or_self(self, a, x):
        n = self.nodes[x]; k = 0
        while n is not None and k < 1000:
            if n is self.nodes[a]: return True
            n = n.parentNode; k += 1
        return False

    def apply(self, op):
        import io
        N = self.nodes; d = self.doc
        try:
            k = op[0]
            if k == 'make': self.make(op[1])
            elif k == 'append': N[op[1]].appendChild(N[op[2]])
            elif k == 'insb': N[op[1]].insertBefore(N[op[2]], None if op[3] is None else N[op[3]])
            elif k == 'rm': N[op[1]].removeChild(N[op[2]])
            elif k == 'loaded': pass                                    # head of a history on a loaded document
            elif k == 'rma':                                            # removeAttribute('name') of an element that has one
                if (D.STYLENS, u'name') in N[op[1]].attributes: N[op[1]].removeAttribute('name')
            elif k == 'clear': d.clear_caches()
            elif k == 'rebuild': d.rebuild_caches() if op[1] is None else d.rebuild_caches(N[op[1]])
            elif k == 'build': d.build_caches(N[op[1]])
            elif k == 'rmcache': d.remove_from_caches(N[op[1]])
            elif k == 'render':
                {'xml': d.xml, 'metaxml': d.metaxml, 'contentxml': d.contentxml, 'stylesxml': d.stylesxml,
                 'settingsxml': d.settingsxml, 'save': lambda: d.save(io.BytesIO()), 'write': lambda: d.write(io.BytesIO())}[op[1]]()
            ans = 'ok'
        except RecursionError:
            raise
        except Exception as e:
            ans = 'err %s: %s' % (type(e).__name__, e)
        self.sweep()
        return ans

    def body(self):
        return self.doc.body


def doc_fixed_histories():
    # ids after the skeleton (0..11; 1 = office:meta, 2 = its generator, 11 = office:text): 'make' ops number upwards from 12
    T = ['make', ['Title']]; G = ['make', ['Generator']]; C = ['make', ['Creator']]
    out = []
    for order in ([T, C], [G, T], [T, G, C], [T, C, G]):
        h = list(order)
        ids = list(range(12, 12 + len(order)))
        # arrange: new children first / around the existing generator (id 2)
        h.append(['insb', 1, ids[0], 2])
        for i in ids[1:]:
            h.append(['append', 1, i])
        for r in ('xml', 'metaxml', 'save'):
            out.append(h + [['render', r]])
        out.append(h + [['append', 1, 2], ['render', 'xml'], ['render', 'save']])
    P = ['make', ['P']]; S = ['make', ['Span']]
    base = [P, S, ['append', 11, 12], ['append', 12, 13]]
    out += [base + [['clear'], ['rm', 12, 13]], base + [['clear'], ['append', 11, 13]], base + [['clear'], ['insb', 11, 13, 12]],
            base + [['clear'], ['rm', 11, 12]], base + [['clear'], ['rebuild', None], ['rm', 11, 12]],
            base + [['rmcache', 12], ['rm', 11, 12]], base + [['build', 12], ['rm', 11, 12]],
            base + [['rebuild', 12], ['rm', 12, 13]], base + [['clear'], ['render', 'xml'], ['render', 'save']]]
    # style:style elements that lack style:name (12), bear the empty name (13) or an ordinary one (14), in the style sections
    # (7 = office:styles, 8 = office:automatic-styles) and in a paragraph (15) under office:text: moved inside a section, to the
    # other section, removed, removed as part of a subtree, after losing the name by removeAttribute
    S0 = ['make', ['Style', None]]; S1 = ['make', ['Style', u'']]; S2 = ['make', ['Style', u'N1']]
    sb = [S0, S1, S2, P]
    out += [sb + [['append', 7, 14], ['append', 7, 12], ['append', 7, 13], ['insb', 7, 12, 14], ['append', 8, 12], ['rm', 8, 12], ['rm', 7, 13]],
            sb + [['append', 8, 12], ['rm', 8, 12]], sb + [['append', 7, 13], ['rm', 7, 13]],
            sb + [['append', 11, 15], ['append', 15, 12], ['rm', 15, 12], ['append', 15, 12], ['rm', 11, 15]],
            sb + [['append', 7, 14], ['rma', 14], ['insb', 7, 12, 14], ['rm', 7, 14], ['append', 8, 14], ['append', 7, 14], ['render', 'xml']],
            sb + [['append', 7, 12], ['render', 'save'], ['clear'], ['rm', 7, 12]]]
    return out


def doc_random_history(rng, loaded=False):
    u = DocUniverse(loaded)
    ops = []
    def do(op):
        ops.append(op); return u.apply(op)
    if loaded:
        do(['loaded'])
    for spec in (['P'], ['Span'], ['Section'], ['Title'], ['Generator'], ['Creator'], ['t', u'txt'], ['t', u'txt'], ['t', u''],
                 ['Style', None], ['Style', u''], ['Style', u'N1']):
        do(['make', spec])
    yield u, ops, None, 'ok'
    text = u.nid(u.doc.text); mt = u.nid(u.doc.meta); st = u.nid(u.doc.styles); au = u.nid(u.doc.automaticstyles)
    for _ in range(rng.randint(4, 25)):
        mov = [i for i in sorted(u.nodes) if i not in u.skel]
        par = [text, mt, text, mt, st, au] + [i for i in mov if u.nodes[i].nodeType == 1]
        k = rng.choice(['append'] * 4 + ['insb'] * 4 + ['rm'] * 3 + ['cache'] * 3 + ['render'] * 3 + ['style'] * 3 + ['rma'])
        if k == 'style':
            # a style (named or not) goes into / moves between the style sections
            sty = [i for i in mov if getattr(u.nodes[i], 'qname', None) == (D.STYLENS, u'style')]
            if not sty: continue
            p = rng.choice([st, au]); c = rng.choice(sty)
            ks = [u.nid(x) for x in u.nodes[p].childNodes]
            op = ['insb', p, c, rng.choice(ks)] if ks and rng.random() < 0.4 else ['append', p, c]
            ans = do(op)
            yield u, ops, op, ans
            continue
        if k == 'rma':
            sty = [i for i in mov if getattr(u.nodes[i], 'qname', None) == (D.STYLENS, u'style') and (D.STYLENS, u'name') in u.nodes[i].attributes]
            if not sty: continue
            op = ['rma', rng.choice(sty)]
            ans = do(op)
            yield u, ops, op, ans
            continue
        if k in ('append', 'insb'):
            p = rng.choice(par); c = rng.choice(mov)
            if u.anc_or_self(c, p): continue
            if k == 'append': op = ['append', p, c]
            else:
                ks = [u.nid(x) for x in u.nodes[p].childNodes]
                op = ['insb', p, c, rng.choice(ks) if ks and rng.random() < 0.8 else None]
        elif k == 'rm':
            cand = [(p, u.nid(x)) for p in set(par) for x in u.nodes[p].childNodes if u.nid(x) in mov]
            if not cand: continue
            p, c = rng.choice(sorted(cand)); op = ['rm', p, c]
        elif k == 'cache':
            els = [i for i in sorted(u.nodes) if u.nodes[i].nodeType == 1]
            # asking the document to index (build / rebuild) a style:style that has no parent is a caller error outside the
            # property (registering a style looks at the section it lies in): such targets are left out
            inx = [i for i in els if not (u.nodes[i].qname == (D.STYLENS, u'style') and u.nodes[i].parentNode is None)]
            op = rng.choice([['clear'], ['clear'], ['rebuild', None], ['rebuild', rng.choice(inx)], ['build', rng.choice(inx)],
                             ['rmcache', rng.choice(els)]])
        else:
            op = ['render', rng.choice(['xml', 'metaxml', 'save', 'contentxml', 'stylesxml', 'settingsxml', 'write'])]
        ans = do(op)
        yield u, ops, op, ans


def doc_check(u, op, ans):
    """the C08 invariant on every node ever seen, after any call, whatever it raised; tree edits and rendering calls
    that are legal must not raise"""
    if op is not None and ans != 'ok' and op[0] in ('append', 'insb', 'rm', 'render', 'clear', 'rebuild', 'make', 'rma', 'loaded'):
        sig = ('legal-edit-refused:' if op[0] in ('append', 'insb', 'rm') else 'document-call-raises:') + ans[4:].split(':')[0]
        probs = consistency_problems(u)
        return (sig, '%s answered %s%s' % (op, ans, ('; afterwards: ' + '; '.join(probs[:3])) if probs else ''))
    probs = consistency_problems(u)
    if probs:
        return ('tree-inconsistent', 'after %s (%s): %s' % (op, ans, '; '.join(probs[:4])))
    return None


def run_doc_ops(ops):
    u = DocUniverse(loaded=bool(ops) and ops[0][0] == 'loaded')
    for idx, op in enumerate(ops):
        ans = u.apply(op)
        bad = doc_check(u, op, ans)
        if bad: return idx, bad
    return None


def doc_histories(chk, n):
    def report_doc(ops, sig):
        cur = list(ops)
        changed = True
        while changed:
            changed = False
            for i in range(len(cur) - 2, -1, -1):
                if cur[i][0] in ('make', 'loaded'): continue
                cand = cur[:i] + cur[i + 1:]
                try:
                    r = run_doc_ops(cand)
                except Exception:
                    continue
                if r and r[1][0] == sig:
                    cur = cand[:r[0] + 1]; changed = True; break
        r = run_doc_ops(cur)
        chk.fail(sig, {'docops': cur}, r[1][1] if r else 'not reproduced after shrinking')
    for ops in doc_fixed_histories():
        r = run_doc_ops(ops)
        chk.case(('doc', json.dumps(ops)), nontrivial=True); chk.count('document_history_fixed')
        if r: report_doc(ops[:r[0] + 1], r[1][0])
    for s in range(n):
        last = None
        loaded = (s % 4 == 3)             # every fourth history runs on a document that came from load()
        chk.count('document_history_loaded' if loaded else 'document_history_built')
        for u, ops, op, ans in doc_random_history(chk.rng, loaded):
            if op is not None: chk.count('docop_' + op[0])
            bad = doc_check(u, op, ans)
            if bad:
                last = (list(ops), bad); break
        chk.case(('doc', json.dumps(ops)), nontrivial=True); chk.count('document_history')
        if last and not any(f['sig'] == last[1][0] for f in chk.failures):
            report_doc(last[0], last[1][0])
        elif last:
            chk.fail(last[1][0], {'docops': last[0]}, last[1][1])


def run(chk, replay=None):
    chk.rule = ('random edit sequences (append / insertBefore / removeChild / addElement / addText / addCDATA, <= 40 ops, '
                '5 elements + 3 text + 1 CDATA node (text nodes of equal content, empty-string ones among them), attached to a document or free-standing; ~1/3 of the references / '
                'removals name non-children; insertion of a node into its own descendant excluded) plus every op in every '
                'distinct pointer state reachable over a small universe; non-trivial = sequence that moves an already '
                'attached node or contains a raising call')
    if replay is not None and 'docops' in replay['input']:
        r = run_doc_ops(replay['input']['docops'])
        print('replay: document history %s -> %s' % (json.dumps(replay['input']['docops']), r))
        return 1 if r else 0
    if replay is not None:
        inp = replay['input']
        orc = oracle_only(inp['attached'], inp['ops'])
        print('replay: attached=%s ops=%s -> %s' % (inp['attached'], json.dumps(inp['ops']), orc.failed))
        return 1 if orc.failed else 0
    chk.prove(drivers=['drv_dom'])
    drv = chk.driver('drv_dom')
    thorough = chk.tier == 'thorough'
    # ---- exhaustive over small universes (every op in every reachable state)
    # (attached, #elements, #text nodes, depth, cap on #states); the 2+2 universes close (all states reached)
    plans = [(False, 2, 2, 5, 4000), (True, 2, 2, 5, 4000)]
    if thorough:
        plans += [(False, 3, 2, 4, 1500), (True, 3, 1, 4, 1500)]
    # the same small universe with two Text nodes of IDENTICAL content (removing / moving the second of two equal siblings)
    ns, na, closed = exhaustive(chk, drv, False, 2, 2, 5 if thorough else 3, 4000, same_text=True)
    chk.notes.append('exhaustive free universe 2 elements + 2 equal text nodes: %d states, %d (state, op) pairs' % (ns, na))
    # universes with style:style elements that LACK style:name / bear the empty name / an ordinary one, attached to a document
    # (the document keeps an index keyed by that attribute) and free-standing
    for attached, kinds, names, depth in [(True, ['@doctext', 'Style', 'P'], {}, 3 if thorough else 2),
                                          (True, ['@doctext', 'Style', 'Style'], {2: u''}, 3 if thorough else 2),
                                          (False, ['Section', 'Style', 'Style'], {2: u'N1'}, 3 if thorough else 1)]:
        ns, na, closed = exhaustive(chk, drv, attached, 3, 1, depth, 1500, kinds=kinds, names=names)
        chk.notes.append('exhaustive %s universe %s (style names %s) + 1 text: %d distinct states, %d (state, op) pairs, depth<=%d'
                         % ('attached' if attached else 'free', kinds, json.dumps(names, sort_keys=True), ns, na, depth + 1))
    for attached, ne, nt, depth, cap in plans:
        ns, na, closed = exhaustive(chk, drv, attached, ne, nt, depth, cap)
        chk.notes.append('exhaustive %s universe %d elements + %d text: %d distinct states, %d (state, op) pairs, depth<=%d%s'
                         % ('attached' if attached else 'free', ne, nt, ns, na, depth + 1,
                            ', state space closed (covers sequences of any length)' if closed else ''))
    # ---- histories on a document: sections, cache methods, rendering calls
    doc_histories(chk, 1500 if thorough else 200)
    # ---- random sequences
    nseq = 6000 if thorough else 600
    for s in range(nseq):
        attached = (s % 2 == 1)
        ops = random_sequence(chk.rng, attached, 40)
        orc = run_sequence(chk, drv, attached, ops)
        body = [o for o in ops if o[0] != 'new']
        chk.case(json.dumps([attached, ops]), nontrivial=(orc.moves > 0 or orc.raises > 0),
                 sample={'attached': attached, 'ops': body[:6], 'moves': orc.moves, 'raises': orc.raises} if s < 4 else None)
        chk.count('random_attached' if attached else 'random_free')
        chk.count('ops_total', len(body)); chk.count('moves', orc.moves); chk.count('raising_calls', orc.raises)
        for o in body:
            chk.count('op_' + o[0])
        if orc.failed:
            report(chk, attached, ops, orc)
    return chk.finish()

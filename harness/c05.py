# -*- coding: utf-8 -*-
"""C05 - load then save preserves a package produced by any application.

proof:          lean/OdfModel/Props/C05.lean (fix_identity, fix_inserts_in_root_tag, fix_prolog_untouched, fix_rest_untouched, fix_w5_root_behind_doctype, fix_w1_ok, fix_w2_text_untouched, fix_w4_ok, section_attributes_kept, sections_preserved_partial; extras_carried parked in Props/C05Extras.lean until the package layer provides the general theorem) about lean/OdfModel/LoadSax.lean (LoadParser, __fixXmlPart, the manifest
                dispatch of load)
                Props/C05Long.lean (round 7): fix_long_root_identity (plain padding of ANY length in front of the declarations of the
                root start tag: the part is not touched - scanTag_pad, declares_pad), fontDrop_keeps (style:name is an exact key of the
                font merge: a declaration whose name is not character for character among the earlier ones is kept)
correspondence: __fixXmlPart on the text of every part of every package (real function vs `fixxml` of drv_load);
                __fixXmlPart on PROLOG TEXTS (harness/prologs.py, fix e859a9c): every legal prolog shape (entity literals, comments,
                processing instructions with `<name`, quotes, `>`, `]` inside; root declaring all / none / some of the nine prefixes)
                and token soups with malformed / unterminated prologs (the model reproduces the backtracking of Python's `re` on
                EVERY text, nothing is left unmodelled) - model vs real function, character for character; on the legal shapes the
                real result must also keep everything up to the end of the document element's name (fix_prolog_untouched);
                the SAX event stream of every part (xml.sax + recording handler, after the real __fixXmlPart) fed to
                the model's LoadParser vs the sections the real load() built
oracle:         source package vs package saved after load, both read with zipfile + expat only: body, common
                styles, master styles, settings, metadata without generator compared element for element /
                attribute for attribute / character for character; every referenced automatic style (schema list
                of reference attributes, closure inside its own part) and every font declaration kept; every other
                manifest-listed file under the same path, media type and bytes (document signatures excepted);
                sub-documents under the same folder with the same sections.
                Nothing but the source's files and the parts a writer has to produce may be in the saved package,
                no path stored or listed more often than in the source (foreign_members).
                Props/C05Extras.lean: isKept_below_object / object_member_carried / object_preview_carried - every listed
                member below an object folder except pictures and parsed parts is carried (model of the dispatch).
inputs:         every .od? package in the repository + structure-preserving mutants written by the harness' own
                serialiser (loadcommon.serialise) + synthetic packages; every kind of listed member below object
                folders (loadmut.m_object_listed_members); HISTORIES: 2-4 packages loaded in one process, the loaded
                documents saved in turn, each 1-3 times, the oracle on every saved package (run_history)
"""
import io, os, re, glob, json, contextlib, warnings, zipfile, base64
import xml.parsers.expat
import common
from common import enc_str, dec_str
import loadcommon as L
import xmlcorr as X

REQUESTED = (u'meta', u'config', u'dc', u'style', u'svg', u'fo', u'draw', u'table', u'form')


# ------------------------------------------------------------------------------------------- the real code
def roundtrip(raw):
    """load + save on the real library -> (saved bytes | None, captured stdout, exception text | None)"""
    from odf.opendocument import load
    out = io.StringIO()
    try:
        with contextlib.redirect_stdout(out), warnings.catch_warnings():
            warnings.simplefilter('ignore')
            d = load(io.BytesIO(raw))
            def allsecs(doc, acc):
                acc[doc.folder[1:] + u'/' if doc.folder else u''] = L.loaded_sections(doc)
                for o in doc.childobjects:
                    allsecs(o, acc)
                return acc
            d._loaded_sections = allsecs(d, {})
            b = io.BytesIO()
            d.save(b)
        return b.getvalue(), out.getvalue(), None, d
    except Exception as e:      # noqa  (what a caller of load() would see)
        return None, out.getvalue(), '%s: %s' % (type(e).__name__, e), None


# ------------------------------------------------------------------------------------------- signature predicates
def fix_analysis(text):
    """what __fixXmlPart (as of 4cb8050 + 692b8c3) does wrong to this part: no harmful class is known any more (the root
    start tag is read quote-aware, the test tolerates any white space, the splice goes after the element name)"""
    return None


def style_names(S):
    """style:name of every child of office:styles and of both automatic-styles sections"""
    out = []
    for sec in (S.styles, S.content_auto, S.styles_auto):
        if sec is not None:
            for k in sec[4]:
                if k[0] == 'E' and (k[1], k[2]) == (L.STYLENS, 'style') and L.style_name(k) is not None:
                    out.append(L.style_name(k))
    return out


# ------------------------------------------------------------------------------------------- the oracle
class Report(object):
    def __init__(self):
        self.items = []       # (sig, detail)
    def add(self, sig, detail):
        if len(self.items) < 60:
            self.items.append((sig, detail))


def nested_section(t, top=True):
    """is a section element (LoadParser.triggers) nested inside this section?"""
    if t is None:
        return False
    for k in t[4]:
        if k[0] == 'E':
            if k[1] == L.OFFICENS and k[2] in L.TRIGGERS:
                return True
            if nested_section(k, False):
                return True
    return False


def classify_diff(d, ctx):
    """signature of one tree difference inside a compared section.  `ctx`: facts about the SOURCE package only."""
    if ctx.get('nested'):
        return 'nested-section-element'
    if d['kind'] == 'attr':
        an = tuple(d['attr']); a = d['a']; b = d['b']
        if a is not None and b is not None and ctx['collisions'] and b.lstrip(u'M') == a.lstrip(u'M') and \
                (a in ctx['collisions'] or a.lstrip(u'M') in ctx['collisions']) and \
                (an == (L.TEXTNS, 'style-name') or an == (L.STYLENS, 'name')):
            return 'style-name-collision'
    return 'section-changed:' + d['kind']


def compare_section(rep, what, a, b, ctx):
    if a is None:
        return
    if b is None:
        rep.add(ctx.get('dropped_sig') or 'section-missing', '%s: section missing in the saved package' % what)
        return
    if a[3] and sorted(a[3]) != sorted(b[3]):
        rep.add(ctx.get('dropped_sig') or 'section-element-attributes-dropped', '%s: the section element had attributes %r, saved %r' % (what, a[3], b[3]))
    na = L.norm(a); nb = L.norm(b)
    na = ('E', na[1], na[2], [], na[4]); nb = ('E', nb[1], nb[2], [], nb[4])
    for d in L.diff(na, nb):
        sig = ctx.get('dropped_sig') or classify_diff(d, ctx)
        rep.add(sig, '%s%s: %s' % (what, d['path'], json.dumps(dict((k, v) for k, v in d.items() if k != 'path'), default=repr)[:300]))


def contains(forest, t):
    nt = L.norm(t)
    return any(L.norm(k) == nt for k in forest if k[0] == 'E')


FONT_REF_ATTRS = ((L.STYLENS, u'font-name'), (L.STYLENS, u'font-name-asian'), (L.STYLENS, u'font-name-complex'))


def font_names(sec):
    """style:name of the style:font-face children of an office:font-face-decls element (None: no such section)"""
    return [] if sec is None else [L.attr(k, L.STYLENS, 'name') for k in sec[4] if k[0] == 'E' and (k[1], k[2]) == (L.STYLENS, 'font-face')]


def font_refs(roots):
    out = []
    for r in roots:
        if r is not None:
            for e in L.elems(r):
                for a in e[3]:
                    if (a[0], a[1]) in FONT_REF_ATTRS:
                        out.append(a[2])
    return out


def compare_doc(rep, src, out, folder, top):
    S = L.sections_of(src, folder); O = L.sections_of(out, folder)
    names = style_names(S)
    ctx = {'collisions': set(n for n in names if names.count(n) > 1),
           'nested': False}     # (repaired) an inline office:document is ordinary content now
    # parts the loader drops because __fixXmlPart made them ill-formed
    dropped = {}
    for part in L.PARTS:
        b = src.data.get(folder + part)
        if b is not None and (folder + part) in src.mdict:
            fa = fix_analysis(b.decode('utf-8'))
            if fa and fa[0] == 'dup':
                dropped[part] = 'fixxml-gt-in-root-attribute-value'
    # the label applies only if the part really was dropped (nothing of it is in the saved package)
    def empty(sec):
        return sec is None or not [k for k in sec[4] if k[0] == 'E' and (k[1], k[2]) != (L.METANS, 'generator')]
    gone = {u'content.xml': empty(O.body), u'styles.xml': empty(O.styles) and empty(O.master),
            u'settings.xml': empty(O.settings), u'meta.xml': empty(O.meta)}
    dropped = dict((p, s) for p, s in dropped.items() if gone[p])
    for part, e in O.errors.items():
        rep.add('saved-part-not-well-formed', '%s%s: %s' % (folder, part, e))
    def cx(part):
        c = dict(ctx); c['dropped_sig'] = dropped.get(part); return c
    compare_section(rep, folder + 'content.xml body', S.body, O.body, cx(u'content.xml'))
    compare_section(rep, folder + 'styles.xml styles', S.styles, O.styles, cx(u'styles.xml'))
    compare_section(rep, folder + 'styles.xml master-styles', S.master, O.master, cx(u'styles.xml'))
    compare_section(rep, folder + 'settings.xml settings', S.settings, O.settings, cx(u'settings.xml'))
    if S.meta is not None and top:
        a = L.without(L.norm(S.meta), L.METANS, 'generator')
        b = None if O.meta is None else L.without(L.norm(O.meta), L.METANS, 'generator')
        compare_section(rep, 'meta.xml meta', a, b, cx(u'meta.xml'))
    elif S.meta is not None and not top:
        # a sub-document's own meta.xml is one of the "other files listed in the manifest"
        pass
    # font declarations
    ofonts = [k for sec in (O.styles_fonts, O.content_fonts) if sec is not None for k in sec[4]]
    for part, sec in ((u'styles.xml', S.styles_fonts), (u'content.xml', S.content_fonts)):
        if sec is None:
            continue
        for f in sec[4]:
            if f[0] == 'E' and not contains(ofonts, f):
                nm = L.attr(f, L.STYLENS, 'name')
                other = S.content_fonts if part == u'styles.xml' else S.styles_fonts
                same = [k for k in (other[4] if other is not None else []) if k[0] == 'E' and L.attr(k, L.STYLENS, 'name') == nm]
                # the decidable class: the OTHER part declares a different font under the same style:name, and that one is kept
                clash = bool(same) and any(contains(ofonts, k) for k in same)
                sig = dropped.get(part) or ('font-face-name-clash' if clash else 'font-face-lost')
                rep.add(sig, '%s%s: font declaration %r not in the saved package' % (folder, part, nm))
    # references to font declarations (style:font-name and its -asian / -complex siblings are names of style:font-face
    # elements, exact keys): a name the source part declared AND referred to is still declared by the saved part, character
    # for character - otherwise the saved part refers to a font it does not declare
    for part, roots, sfonts, ofn in ((u'content.xml', [S.content_auto, S.body], S.content_fonts, O.content_fonts),
                                     (u'styles.xml', [S.styles, S.styles_auto, S.master], S.styles_fonts, O.styles_fonts)):
        declared = set(font_names(sfonts)); kept = set(font_names(ofn))
        for nm in sorted(set(font_refs(roots))):
            if nm in declared and nm not in kept:
                rep.add(dropped.get(part) or 'font-reference-dangling', '%s%s: style:font-name %r is declared in the source part, the saved part declares %s' %
                        (folder, part, nm, sorted(kept)[:8]))
    # referenced automatic styles, each in its own part
    for part, auto, roots, oauto in ((u'content.xml', S.content_auto, [S.body], O.content_auto),
                                     (u'styles.xml', S.styles_auto, [S.master], O.styles_auto)):
        for st in L.referenced_auto(auto, roots):
            if oauto is None or not contains(oauto[4], st):
                nm = L.style_name(st)
                if dropped.get(part):
                    sig = dropped[part]
                elif ctx['nested']:
                    sig = 'nested-section-element'
                elif nm in ctx['collisions']:
                    sig = 'style-name-collision'
                else:
                    sig = 'referenced-automatic-style-lost'
                    # the style is there but differs: say how
                    cand = [k for k in (oauto[4] if oauto else []) if k[0] == 'E' and L.style_name(k) == nm and (k[1], k[2]) == (st[1], st[2])]
                    if cand:
                        ds = L.diff(L.norm(st), L.norm(cand[0]))
                        sigs = set(classify_diff(d, ctx) for d in ds)
                        if len(sigs) == 1 and not list(sigs)[0].startswith('section-changed'):
                            sig = list(sigs)[0]
                rep.add(sig, '%s%s: referenced automatic style %r (%s) not kept' % (folder, part, nm, st[2]))


def is_object_folder(pkg, p):
    return p.endswith(u'/') and p != u'/' and any((p + x) in pkg.mdict for x in (u'content.xml', u'styles.xml'))


def compare_packages(src, out):
    rep = Report()
    compare_doc(rep, src, out, u'', True)
    subdocs = [p for p, _ in src.manifest if is_object_folder(src, p)]
    handled = set([u'/', u'META-INF/manifest.xml', u'mimetype', L.SIGNATURES] + list(L.PARTS))
    top_folders = [p for p, _ in src.manifest if p in subdocs and p.count(u'/') == 1]
    contiguous = [p for p in top_folders if p.startswith(u'Object ')] == [u'Object %d/' % (i + 1) for i in range(len([p for p in top_folders if p.startswith(u'Object ')]))]
    def object_sig(path):
        """why load() does not keep a file below an object folder (classes of KF-C16-3..7)"""
        first = path.split(u'/')[0] + u'/'
        rest = path[len(first):]
        if not first.startswith(u'Object '):
            return None
        if len(first) >= 11:
            return 'long-object-name-not-loaded'
        if rest == u'' or rest in L.PARTS:
            return None if contiguous else 'object-folder-renumbered'
        if rest.startswith(u'Pictures/') and len(rest) > 9:
            return 'object-pictures-not-loaded'
        sub = rest.split(u'/')[0] + u'/'
        if is_object_folder(src, first + sub) :
            return 'nested-object-not-loaded'
        return 'object-files-not-loaded'
    for p in subdocs:
        mt = src.mdict[p][0]
        handled.add(p)
        for x in L.PARTS:
            handled.add(p + x)
        if p not in out.mdict or (p + u'content.xml') not in out.data and (p + u'content.xml') in src.data:
            rep.add(object_sig(p) or 'sub-document-lost', 'sub-document %r is not in the saved package' % p)
            continue
        if mt not in out.mdict[p]:
            rep.add(object_sig(p) or 'sub-document-media-type', 'sub-document %r: media type %r saved as %r' % (p, mt, out.mdict[p]))
        sub = Report()
        compare_doc(sub, src, out, p, False)
        for sig, det in sub.items:
            # a renumbered folder holds another object's parts
            rep.add(object_sig(p) or sig, det)
        # its meta.xml travels as a file
        if (p + u'meta.xml') in src.mdict:
            if (p + u'meta.xml') not in out.mdict:
                rep.add('object-files-not-loaded', 'file %r listed in the manifest is not in the saved manifest' % (p + u'meta.xml'))
    # the media type of the package
    root_mt = src.mdict.get(u'/', [None])[0]
    if src.mimetype is not None:
        if out.mimetype != src.mimetype:
            rep.add('mimetype-changed', 'mimetype member %r saved as %r' % (src.mimetype, out.mimetype))
    if root_mt is not None and root_mt not in out.mdict.get(u'/', []):
        sig = 'root-media-type-from-mimetype-member' if (src.mimetype is not None and src.mimetype.decode('utf-8', 'replace') != root_mt) else 'root-media-type-changed'
        rep.add(sig, 'manifest entry "/" %r saved as %r' % (root_mt, out.mdict.get(u'/')))
    # every other file listed in the manifest
    for p, mt in src.manifest:
        if p in handled or p is None:
            continue
        osig = object_sig(p) if p.startswith(u'Object ') else None
        if p not in out.mdict:
            rep.add(osig or 'listed-file-lost', 'file %r listed in the manifest is not in the saved manifest' % p)
            continue
        if mt not in out.mdict[p]:
            sig = 'thumbnail-media-type-dropped' if p == u'Thumbnails/thumbnail.png' else \
                  'thumbnails-folder-media-type' if p == u'Thumbnails/' else (osig or 'listed-file-media-type-changed')
            rep.add(sig, 'file %r: media type %r saved as %r' % (p, mt, out.mdict[p]))
        if not p.endswith(u'/') and p in src.data:
            if p not in out.data:
                rep.add(osig or 'listed-file-lost', 'file %r is listed but not stored in the saved package' % p)
            elif out.data[p] != src.data[p]:
                rep.add(osig or 'listed-file-bytes-changed', 'file %r: %d bytes saved as %d different bytes' % (p, len(src.data[p]), len(out.data[p])))
    foreign_members(rep, src, out, subdocs)
    return rep


def foreign_members(rep, src, out, subdocs):
    """the saved package is the SOURCE package rewritten: besides what the source lists/stores it may hold only what a
    writer has to produce for this document (mimetype, manifest, the four parts of the top document, content / styles /
    settings of the source's own object folders, folder entries above such files).  A file that comes from somewhere
    else - another document of the process, an earlier save - is not "kept", and a path stored or listed more often than
    in the source makes "the file under this path" ambiguous."""
    own = set([u'mimetype', u'META-INF/manifest.xml']) | set(L.PARTS)
    for f in subdocs:
        own |= set([f + u'content.xml', f + u'styles.xml', f + u'settings.xml'])
    legit = own | set(src.names) | set(p for p, _ in src.manifest if p)
    def is_folder_above(p):
        return p.endswith(u'/') and any(x.startswith(p) for x in legit)
    for n in sorted(set(out.names)):
        if n not in legit and not is_folder_above(n):
            rep.add('saved-package-foreign-member', 'member %r of the saved package is neither in the source nor a part of this document' % n)
        if out.names.count(n) > max(1, src.names.count(n)):
            rep.add('saved-package-duplicate-member', 'member %r is stored %d times in the saved package' % (n, out.names.count(n)))
    for p in sorted(set(p for p, _ in out.manifest if p)):
        if p not in legit and not is_folder_above(p):
            rep.add('saved-package-foreign-member', 'manifest entry %r of the saved package is neither in the source nor a part of this document' % p)
        if len(out.mdict[p]) > max(1, len(src.mdict.get(p, []))):
            rep.add('saved-manifest-duplicate-entry', 'path %r is listed %d times in the saved manifest' % (p, len(out.mdict[p])))


# ------------------------------------------------------------------------------------------- inputs
def sample_files():
    fs = []
    for pat in ('tests/examples/*.od?', 'examples/*.od?', 'samples/*.od?', '*.od?', 'odfimgimport/*.od?', 'contrib/odfsign/testdocs/*.od?'):
        fs += glob.glob(os.path.join(common.REPO, pat))
    return sorted(set(os.path.relpath(f, common.REPO) for f in fs))


SHAPES = ('plain', 'objects', 'nested', 'objpics', 'gap', 'long', 'order', 'many')


def build_case(recipe):
    """recipe {'base': 'file:<path relative to the repository>' | 'syn:<shape>', 'mut': name|None, 'seed': int}
    -> package bytes (None when the mutator does not apply)"""
    import random
    import loadmut as M
    rng = random.Random(recipe['seed'])
    if recipe['base'].startswith('file:'):
        with open(os.path.join(common.REPO, recipe['base'][5:]), 'rb') as f:
            raw = f.read()
        if recipe.get('mut') is None:
            return raw
        spec = M.spec_of(L.read_pkg(raw))
    elif recipe['base'].startswith('witness:'):
        spec = M.witness(recipe['base'][8:])
    elif recipe['base'].startswith('longroot:'):
        k, delta, kind, which = recipe['base'][9:].split(u':')
        spec = M.long_root_witness(rng, int(k), int(delta), kind, which)
    else:
        spec = M.synthetic(rng, recipe['base'][4:])
    if recipe.get('mut'):
        spec = dict(M.MUTATORS)[recipe['mut']](spec, rng)
        if spec is None:
            return None
    return M.write(spec)


def has_doctype(pkg):
    return any(b'<!DOCTYPE' in pkg.data.get(n, b'') for n in pkg.names if n.endswith('.xml'))


def rejected_values(pkg):
    """(element, attribute, value) triples of loadmut.REJECTED present in the package's parts"""
    import loadmut as M
    hits = []
    for n in pkg.names:
        if n.split(u'/')[-1] in L.PARTS:
            try:
                t = L.parse_xml(pkg.data[n])
            except Exception:
                continue
            for e in L.elems(t):
                for (eq, aq, v) in M.REJECTED:
                    if (e[1], e[2]) == eq and L.attr(e, aq[0], aq[1]) == v:
                        hits.append((eq[1], aq[1], v))
    return hits


def run_package(raw):
    """oracle on one package -> (report, saved bytes | None, loaded document | None, printed text)"""
    src = L.read_pkg(raw)
    saved, printed, exc, doc = roundtrip(raw)
    rep = Report()
    if exc is not None:
        rj = rejected_values(src)
        if rj and exc.startswith('ValueError'):
            rep.add('load-raises-on-schema-valid-value', '%s (package holds %r)' % (exc[:200], rj[:2]))
        else:
            rep.add('load-raises', exc[:300])
        return rep, None, None, printed
    out = L.read_pkg(saved)
    rep = compare_packages(src, out)
    return rep, saved, doc, printed


def run_history(recipe):
    """several documents alive in ONE process: recipe {'base': 'history', 'steps': [single recipes], 'schedule': [step
    numbers]}.  Every step's package is loaded (in order, all loaded documents stay alive), then the documents are saved
    in the order of the schedule - a document may be saved several times, between the saves of other documents.  The
    property holds for every load+save, whatever else the process loaded or saved before: the full oracle is evaluated
    on every saved package against ITS source.  -> (report, number of saves)"""
    from odf.opendocument import load
    rep = Report()
    srcs = []; docs = []
    for k, st in enumerate(recipe['steps']):
        raw = build_case(st)
        src = None if raw is None else L.read_pkg(raw)
        if src is None or has_doctype(src):
            srcs.append(None); docs.append(None); continue
        out = io.StringIO()
        try:
            with contextlib.redirect_stdout(out), warnings.catch_warnings():
                warnings.simplefilter('ignore')
                d = load(io.BytesIO(raw))
        except Exception as e:      # noqa
            rj = rejected_values(src)
            rep.add('load-raises-on-schema-valid-value' if rj and isinstance(e, ValueError) else 'load-raises', 'step %d: %s: %s' % (k, type(e).__name__, e))
            srcs.append(None); docs.append(None); continue
        srcs.append(src); docs.append(d)
    nsave = 0
    count = {}
    for k in recipe['schedule']:
        if k >= len(docs) or docs[k] is None:
            continue
        count[k] = count.get(k, 0) + 1
        b = io.BytesIO()
        try:
            with contextlib.redirect_stdout(io.StringIO()), warnings.catch_warnings():
                warnings.simplefilter('ignore')
                docs[k].save(b)
        except Exception as e:      # noqa
            rep.add('save-raises', 'step %d save %d: %s: %s' % (k, count[k], type(e).__name__, e)); continue
        nsave += 1
        one = compare_packages(srcs[k], L.read_pkg(b.getvalue()))
        for sig, det in one.items:
            rep.add(sig, 'step %d (%s/%s) save %d: %s' % (k, recipe['steps'][k]['base'], recipe['steps'][k].get('mut'), count[k], det))
    return rep, nsave


def gen_histories(chk):
    """histories of 2-4 small packages; at least one of them carries members the library keeps as they are (extra
    members at the top, files below object folders), several have object folders of the same names"""
    rng = chk.rng
    small = [f for f in sample_files() if os.path.getsize(os.path.join(common.REPO, f)) < 12000]
    carriers = [('syn:objects', 'object-own-files'), ('syn:objects', 'object-listed-members'), ('syn:nested', 'object-listed-members'),
                ('syn:nested', 'object-own-files'), ('syn:plain', 'extra-members'), ('syn:objects', 'extra-members'), ('syn:objpics', 'empty-media-types')]
    others = [('syn:plain', None), ('syn:objects', None), ('syn:nested', None), ('syn:objpics', None), ('syn:gap', None), ('syn:objects', 'manifest-reorder')]
    out = []
    for i in range(6 if chk.tier == 'quick' else 40):
        steps = []
        n = rng.randint(2, 4)
        for j in range(n):
            if j == (i % 2) or rng.random() < 0.3:        # the carrier comes first in half of the histories
                base, mut = rng.choice(carriers)
            elif small and rng.random() < 0.25:
                base, mut = 'file:' + rng.choice(small), rng.choice([None, 'extra-members'])
            else:
                base, mut = rng.choice(others)
            steps.append({'base': base, 'mut': mut, 'seed': rng.getrandbits(48)})
        sched = [k for k in range(n) for _ in range(rng.randint(1, 3))]
        rng.shuffle(sched)
        out.append({'base': 'history', 'mut': None, 'seed': 0, 'steps': steps, 'schedule': sched})
    return out


def gen_cases(chk):
    import loadmut as M
    rng = chk.rng
    files = sample_files()
    names = [m for m, _ in M.MUTATORS]
    cases = []
    per_file = len(names) if chk.tier == 'thorough' else 4
    # rotate through the mutators so that every one is used on several samples
    order = list(names); rng.shuffle(order)
    k = 0
    for f in files:
        cases.append({'base': 'file:' + f, 'mut': None, 'seed': rng.getrandbits(48)})
        size = os.path.getsize(os.path.join(common.REPO, f))
        n = per_file if size < 30000 or chk.tier == 'thorough' else 2
        for _ in range(n):
            cases.append({'base': 'file:' + f, 'mut': order[k % len(order)], 'seed': rng.getrandbits(48)}); k += 1
    # the object mutator needs a sample with objects
    for f in files:
        if os.path.basename(f) in ('emb_spreadsheet.odp', 'spreadsheet-with-macro.ods'):
            cases.append({'base': 'file:' + f, 'mut': 'object-renumber', 'seed': rng.getrandbits(48)})
            cases.append({'base': 'file:' + f, 'mut': 'replicate-objects', 'seed': rng.getrandbits(48)})
            cases.append({'base': 'file:' + f, 'mut': 'object-own-files', 'seed': rng.getrandbits(48)})
            cases.append({'base': 'file:' + f, 'mut': 'object-listed-members', 'seed': rng.getrandbits(48)})
        if os.path.basename(f) in ('simplelist.odt', 'emb_spreadsheet.odp', 'cols.odp'):
            for mname in ('fonts-differ', 'fonts-styles-only', 'inline-document', 'embedded-fonts', 'empty-media-types'):
                cases.append({'base': 'file:' + f, 'mut': mname, 'seed': rng.getrandbits(48)})
        if os.path.basename(f) in ('simplelist.odt', 'twolevellist.odt', 'headerfooter.odt', 'pythagoras.ods'):
            cases.append({'base': 'file:' + f, 'mut': 'same-name-kinds', 'seed': rng.getrandbits(48)})
    for w in ('w1', 'w2', 'w4'):
        cases.append({'base': 'witness:' + w, 'mut': None, 'seed': 0})
    nsyn = 6 if chk.tier == 'thorough' else 2
    for shape in SHAPES:
        for _ in range(nsyn):
            cases.append({'base': 'syn:' + shape, 'mut': None, 'seed': rng.getrandbits(48)})
    for m in names:
        for _ in range(nsyn if chk.tier == 'thorough' else 1):
            cases.append({'base': 'syn:' + rng.choice(['plain', 'plain', 'objects']), 'mut': m, 'seed': rng.getrandbits(48)})
    for _ in range(nsyn):
        cases.append({'base': 'syn:objects', 'mut': 'object-own-files', 'seed': rng.getrandbits(48)})
    for shape in ('objects', 'nested', 'objpics', 'many', 'gap'):
        for _ in range(nsyn if shape in ('objects', 'nested') else 1):
            cases.append({'base': 'syn:' + shape, 'mut': 'object-listed-members', 'seed': rng.getrandbits(48)})
    # ---- round 7: nearly equal font names in the two parts; very long root start tags
    for base in ['syn:plain'] * (3 * nsyn) + ['syn:objects', 'syn:nested'] * (nsyn // 2) + \
            ['file:' + f for f in files if os.path.basename(f) in ('simplelist.odt', 'emb_spreadsheet.odp', 'cols.odp', 'pythagoras.ods')]:
        cases.append({'base': base, 'mut': 'fonts-near-names', 'seed': rng.getrandbits(48)})
    for base in ['syn:plain', 'syn:objects'] + ['file:' + f for f in files if os.path.basename(f) in (('simplelist.odt', 'emb_spreadsheet.odp') if chk.tier == 'thorough' else ('simplelist.odt',))]:
        for m in ('long-root-tag-8k', 'long-root-tag-64k', 'long-root-tag'):
            if m == 'long-root-tag-64k' and base == 'syn:objects' and chk.tier != 'thorough':
                continue
            for _ in range(nsyn // 2 if base.startswith('syn:') else 1):
                cases.append({'base': base, 'mut': m, 'seed': rng.getrandbits(48)})
    # hand-written parts whose root start tag ends near 2^k characters (k = 10..16), the nine prefixes the loader asks for
    # declared at the END of the tag: all of them / some / none
    deltas = (-1, 0, 1, 2, 40, 700) if chk.tier == 'thorough' else (rng.choice([-1, 0, 1, 2]), rng.choice([40, 700]))
    for k in M.LONG_ROOT_K:
        for which in ('all', 'some', 'none'):
            for delta in (deltas if which != 'none' else deltas[:1]):
                kinds = M.LONG_ROOT_KINDS if chk.tier == 'thorough' and k < 15 else (rng.choice(M.LONG_ROOT_KINDS),)
                for kind in kinds:
                    cases.append({'base': 'longroot:%d:%d:%s:%s' % (k, delta, kind, which), 'mut': None, 'seed': rng.getrandbits(48)})
    return cases


def correspond_prologs(chk, drv):
    """`__fixXmlPart` on prolog texts: model (`fixxml` of drv_load) vs the real function, character for character"""
    import prologs
    texts = [(('shape', n, v), t, e) for n, v, t, e in prologs.member_texts()]
    # unterminated / very long internal subsets: first the time of ONE call, in a child process (an exponential matcher must not hang the check)
    nfast, slow = prologs.probe_slow(common.REPO)
    chk.count('fixxml_prolog_timed_calls', nfast)
    if slow is not None:
        name, ent, secs = slow
        text = dict(prologs.slow_texts(bool(ent))).get(name, u'')
        chk.fail('fixxmlpart-slow', {'base': 'prolog', 'mut': None, 'seed': 0, 'slow': name, 'entity': ent, 'text': text[:300]},
                 'one call of __fixXmlPart on a %d character text (internal subset that does not end, full of comments / processing instructions) %s; '
                 'limit %.1f s: load() hangs on such a part' % (len(text), ('took %.1f s' % secs) if secs is not None else
                                                               'did not return within the budget of the probe', prologs.SLOW_LIMIT))
    else:
        texts += [(('slow', n_, ent), t, None) for ent in (0, 1) for n_, t in prologs.slow_texts(bool(ent))]
    texts += [(('soup', i), t, None) for i, t in enumerate(prologs.soup(chk.rng, 3000 if chk.tier == 'thorough' else 700))]
    answers = drv.batch(['fixxml ' + enc_str(t) for _, t, _ in texts])
    for (key, text, e), ans in zip(texts, answers):
        want = L.real_fix(text)
        chk.corr(); chk.count('fixxml_prolog_' + key[0])
        if want != text:
            chk.count('fixxml_prolog_changed_text')
        if ans != 'ok ' + enc_str(want):
            chk.corr_diff({'prolog': list(key), 'text': text[:400]}, want[:400], dec_str(ans[3:])[:400] if ans.startswith('ok ') else ans,
                          '__fixXmlPart on a prolog text')
        if e is not None:
            # independent of the model: a legal prolog and the start of the root tag come back as they are, the rest follows what was inserted
            if want[:e] != text[:e] or not want.endswith(text[e:]) or (key[2] == 0 and want != text):
                chk.corr_diff({'prolog': list(key), 'text': text[:400]}, want[:400], text[:400],
                              '__fixXmlPart must insert behind the name of the document element only (the prolog is legal XML)')


def run(chk, replay=None):
    chk.rule = ('every .od? package shipped in the repository, each also put through structure-preserving mutators '
                '(prefix renaming/swapping, default namespace, declaration layout, manifest order, object numbering, extra '
                'members, every kind of listed member below object folders, foreign attributes, fonts in content.xml only, nearly equal font names in the two parts, root start tags of 1-64 KiB, names with blanks, CDATA, indentation) and synthetic '
                'packages from the harness\' own serialiser; histories of 2-4 packages loaded in one process and saved in turn, each 1-3 times; non-trivial = the package has a body with content')
    if replay is not None and replay['input'].get('base') == 'prolog':
        import prologs
        n, slow = prologs.probe_slow(common.REPO)
        print('replay: probe of __fixXmlPart on prologs.slow_texts(): %d calls in time, first slow call: %s' % (n, slow))
        return 1 if slow is not None else 0
    if replay is not None:
        if replay['input'].get('base') == 'history':
            rep, nsave = run_history(replay['input'])
        else:
            raw = build_case(replay['input'])
            rep, saved, doc, printed = run_package(raw)
        known = set(k['sig'] for k in chk.known)
        bad = [x for x in rep.items if (x[0] == replay['signature'] if replay.get('signature') else x[0] not in known)]
        for sig, det in bad[:10]:
            print('replay: %s :: %s' % (sig, det[:300]))
        return 1 if bad else 0
    cases = gen_cases(chk)
    chk.assumptions += [
        "C05 is PARTIAL by construction: the text of a foreign part becomes a SAX event stream through expat (trusted: a conforming XML 1.0 + Namespaces processor; it rejects a start tag that names an attribute twice); the Lean model starts from the event stream",
        "attribute converters (Element.setAttrNS -> AttrConverters.convert) are a parameter of the load model: the harness applies the real converter to the recorded events (C15 checks them)",
        "the manifest dispatch of load()/save() (pictures, objects at any depth, opaque extras) is modelled in lean/OdfModel/Pkg.lean and tied to the code by C03/C16 (drv_pkg); the statement extras_carried is checked here by the oracle on every package, its proof is parked (Props/C05Extras.lean) until re-pointed to the package layer's general theorem",
    ]
    chk.notes.append('oracle: source package vs re-saved package, both read with zipfile + expat only (harness/loadcommon.py); '
                     'signatures are predicates on the SOURCE package (fix_analysis, style_names, nested_section, object_sig, rejected_values)')
    def deep():
        # something in the model no longer matches: look harder for a package the real code does not preserve
        import loadmut as M
        for f in sample_files():
            for m, _ in M.MUTATORS:
                rc = {'base': 'file:' + f, 'mut': m, 'seed': chk.rng.getrandbits(48)}
                raw = build_case(rc)
                if raw is None or has_doctype(L.read_pkg(raw)):
                    continue
                rep, saved, doc, printed = run_package(raw)
                for sig, det in rep.items:
                    chk.fail(sig, rc, det)
            if chk.failures:
                return
    chk.deep_search = deep
    chk.prove(modules=['OdfModel.Props.C05', 'OdfModel.Props.C05Extras', 'OdfModel.Props.C05Long'], drivers=['drv_load'])
    drv = chk.driver('drv_load')
    L.correspond_pyspace(chk, drv)
    correspond_prologs(chk, drv)
    # ---- histories first: several documents of one process, saved in turn and repeatedly (the replay of a failure found
    # here is the whole history; a library that carries state from one save to the next shows it here first)
    for hc in gen_histories(chk):
        rep, nsave = run_history(hc)
        chk.count('history_cases'); chk.count('history_saves', nsave)
        chk.case(('history', json.dumps(hc, sort_keys=True)), nontrivial=nsave >= 3,
                 sample={'case': {'steps': [(st['base'], st['mut']) for st in hc['steps']], 'schedule': hc['schedule']},
                         'findings': sorted(set(x for x, _ in rep.items))})
        seen = set()
        for sig, det in rep.items:
            if sig not in seen:
                seen.add(sig)
                chk.fail(sig, hc, det)
    for rc in cases:
        raw = build_case(rc)
        if raw is None:
            chk.count('mutator-not-applicable'); continue
        src = L.read_pkg(raw)
        if has_doctype(src):
            chk.count('skipped:has-doctype (refused by design, C13)'); continue
        rep, saved, doc, printed = run_package(raw)
        # ---- correspondence 1: __fixXmlPart on the text of every part
        fix_lines = []; fix_real = []
        for n in src.names:
            long_root = rc['base'].startswith('longroot:') or str(rc.get('mut')).startswith('long-root-tag')
            if n.split(u'/')[-1] in L.PARTS and len(src.data[n]) < (400000 if chk.tier == 'thorough' or long_root else 60000):
                try:
                    text = src.data[n].decode('utf-8')
                except UnicodeDecodeError:
                    continue
                fix_lines.append('fixxml ' + enc_str(text)); fix_real.append((n, L.real_fix(text)))
        for (n, want), ans in zip(fix_real, drv.batch(fix_lines)):
            chk.corr(); chk.count('fixxml_parts')
            if long_root:
                chk.count('fixxml_long_root_parts')
                if len(src.data[n]) >= 60000:
                    chk.count('fixxml_long_root_parts_64k')
            if ans != 'ok ' + enc_str(want):
                chk.corr_diff(dict(rc, part=n), want[:300], dec_str(ans[3:])[:300] if ans.startswith('ok ') else ans, '__fixXmlPart on the text of the part')
            if want != src.data[n].decode('utf-8'):
                chk.count('fixxml_changed_text')
        # ---- correspondence 2: the recorded SAX streams through the model vs what load() built
        if doc is not None and len(raw) < (10 ** 7 if chk.tier == 'thorough' else 45000):
            for folder, real in sorted(doc._loaded_sections.items()):
                L.correspond_document(chk, drv, src, folder, real, dict(rc, folder=folder))
        chk.count('base:' + ('sample' if rc['base'].startswith('file:') else rc['base']))
        chk.count('mut:' + str(rc['mut']))
        body = L.sections_of(src).body
        chk.case((rc['base'], rc['mut'], rc['seed']), nontrivial=body is not None and len(list(L.elems(body))) > 2,
                 sample={'case': rc, 'findings': sorted(set(s for s, _ in rep.items))})
        seen = set()
        for sig, det in rep.items:
            if sig in seen:
                continue
            seen.add(sig)
            chk.fail(sig, rc, det)
    return chk.finish()

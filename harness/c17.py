# -*- coding: utf-8 -*-
"""C17 - the whitespace helper round-trips every string.

proof:          lean/OdfModel/Props/C17.lean (roundtrip, roundtrip_append, no_raw_whitespace,
                roundtrip_after_merge) about the model lean/OdfModel/Teletype.lean, and
                lean/OdfModel/Props/C17SaveLoad.lean (roundtrip_through_canon, roundtrip_saveload: the inserted nodes written
                by the writer model and read back by the reference parser of the XML layer still extract to the string),
                lean/OdfModel/Props/C17Merge.lean (mergeText_enc / saveload_identity: no two inserted text nodes are adjacent, so
                the merge a save/load cycle performs returns the inserted list itself; enc_injective, enc_injective_after_merge;
                mergeText_idem, roundtrip_after_merges: any number of cycles - the harness runs two)
correspondence: node list appended by odf.teletype.addTextToElement  vs  `enc [] s` (drv_teletype)
oracle:         extractText(addTextToElement(s)) == s directly, appended to a pre-filled element,
                and after save()+load(); node predicate (no TAB/LF/double blank in text nodes)
big parts:      strings of 2-, 3- and 4-byte UTF-8 characters only (loadcommon.straddle_text), ~140 KB, with white space before
                and behind, inserted into a body paragraph (content.xml) and a header paragraph (styles.xml) of three documents
                whose ASCII padding differs by one byte: a character lies across every byte offset 2^12..2^17 of both parts
                in at least one of them (counted from the saved bytes: straddle:<part>:2^k); saved, loaded, extracted
"""
import io, itertools, zipfile
from common import enc_str, dec_str
import loadcommon as L

TEXTNS = u"urn:oasis:names:tc:opendocument:xmlns:text:1.0"
ALPHA = [u' ', u'\t', u'\n', u'\r', u'a', u'<', u'&']
EXTRA = [u'>', u']', u'é', u'\U0001F600', u'"', u"'", u' ', u' ', u'b', u'�', u'\x85']


def short(x):
    return x if len(x) < 120 else u'%s... (%d characters)' % (x[:40], len(x))


def dump_nodes(nodes):
    out = []
    for n in nodes:
        if n.nodeType == 3:
            out.append('T:' + enc_str(n.data))
        elif n.nodeType == 4:
            out.append('C:' + enc_str(n.data))
        elif n.nodeType == 1:
            if n.qname == (TEXTNS, 's'):
                c = n.getAttrNS(TEXTNS, 'c')
                out.append('S0' if c is None else 'S:%d' % int(c))
            elif n.qname == (TEXTNS, 'tab'):
                out.append('TAB')
            elif n.qname == (TEXTNS, 'line-break'):
                out.append('LB')
            else:
                out.append('E(' + ' '.join(dump_nodes(n.childNodes)) + ')')
    return out


def clean_nodes(nodes):
    """the node predicate of the property, evaluated on the real nodes"""
    for n in nodes:
        if n.nodeType == 3:
            d = n.data
            if d == '' or '\t' in d or '\n' in d or '  ' in d:
                return False
        elif n.nodeType == 1:
            if n.qname == (TEXTNS, 's'):
                c = n.getAttrNS(TEXTNS, 'c')
                if c is None or int(c) < 1:
                    return False
            elif n.qname not in ((TEXTNS, 'tab'), (TEXTNS, 'line-break')):
                return False
        else:
            return False
    return True


def gen_strings(chk):
    rng = chk.rng
    maxlen = 6 if chk.tier == 'thorough' else 4
    for n in range(0, maxlen + 1):
        for t in itertools.product(ALPHA, repeat=n):
            yield u''.join(t), 'exhaustive'
    # size extremes (every run): runs of blanks around the powers of two where a count could be clamped or wrapped, long
    # runs of the other white-space characters, a long mixed string
    for n in (127, 128, 255, 256, 257, 1000, 32767, 32768, 65535, 65536, 65537, 70001):
        yield u' ' * n, 'extreme'
        yield u'a' + u' ' * n + u'b', 'extreme'
    for n in (300, 5000):
        yield u'\t' * n, 'extreme'
        yield u'\n' * n, 'extreme'
        yield (u'ab \t\n  c') * n, 'extreme'
    nrand = 20000 if chk.tier == 'thorough' else 3000
    alpha = ALPHA * 3 + EXTRA
    for _ in range(nrand):
        n = rng.randint(1, 40)
        # runs of blanks are what the encoder is about: draw run lengths explicitly
        s = []
        while len(s) < n:
            c = rng.choice(alpha)
            s.extend([c] * (rng.choice([1, 1, 1, 2, 3, 7]) if c == u' ' else 1))
        yield u''.join(s), 'random'


BIG_WS_HEAD = u' \t\n  x'
BIG_WS_TAIL = u'y  \n\t z '


def big_string(pad, order):
    """white space the helper has to encode, `pad` ASCII letters, ~140 KB of multi-byte characters, white space again"""
    return BIG_WS_HEAD + L.straddle_text(pad, order) + BIG_WS_TAIL


def run_big(teletype, pad, orders=(0, 1), at=None):
    """one document: big_string(pad, orders[0]) in a body paragraph, big_string(pad, orders[1]) in a header paragraph of a
    master page (styles.xml).  at = (offset of the first multi-byte character in content.xml, in styles.xml) of a recorded
    run: the paddings are then chosen so that the characters lie at the same byte offsets mod 12 (what stands in front of
    the text in a part depends on the history of the process).
    -> (problems [(what, detail)], {part: [k straddled]}, at); problems empty = the property holds"""
    from odf.opendocument import OpenDocumentText, load
    from odf import text, style
    def build(padb, padh):
        sb, sh = big_string(padb, orders[0]), big_string(padh, orders[1])
        doc = OpenDocumentText()
        pb = text.P(); teletype.addTextToElement(pb, sb); doc.text.addElement(pb)
        doc.automaticstyles.addElement(style.PageLayout(name=u'BigPL'))
        mp = style.MasterPage(name=u'Big', pagelayoutname=u'BigPL'); doc.masterstyles.addElement(mp)
        hd = style.Header(); mp.addElement(hd)
        ph = text.P(); hd.addElement(ph); teletype.addTextToElement(ph, sh)
        buf = io.BytesIO(); doc.save(buf)
        z = zipfile.ZipFile(io.BytesIO(buf.getvalue()))
        parts = dict((n, z.read(n)) for n in (u'content.xml', u'styles.xml'))
        z.close()
        return sb, sh, pb, ph, buf, parts
    sb, sh, pb, ph, buf, parts = build(pad, pad)
    padb = padh = pad
    for _ in range(4 if at is not None else 0):      # (the first save of a process writes a shorter part header than later ones)
        ob, oh = L.first_wide_offset(parts[u'content.xml']), L.first_wide_offset(parts[u'styles.xml'])
        if (ob - at[0]) % 12 == 0 and (oh - at[1]) % 12 == 0:
            break
        padb, padh = (padb + at[0] - ob) % 12, (padh + at[1] - oh) % 12
        sb, sh, pb, ph, buf, parts = build(padb, padh)
    at = [L.first_wide_offset(parts[u'content.xml']), L.first_wide_offset(parts[u'styles.xml'])]
    bad = []
    for what, p, s in (('body', pb, sb), ('header', ph, sh)):
        got = teletype.extractText(p)
        if got != s:
            bad.append(('roundtrip-direct', '%s paragraph: extractText gave %r for %r' % (what, short(got), short(s))))
        if not clean_nodes(p.childNodes):
            bad.append(('raw-whitespace', '%s paragraph holds raw white space' % what))
    hit = dict((n, L.straddled_offsets(parts[n])) for n in sorted(parts))
    try:
        d2 = load(io.BytesIO(buf.getvalue()))
    except Exception as e:
        return bad + [('roundtrip-saveload', 'load() of the saved document raises %s' % short(repr(e)))], hit, at
    for what, sec, s in (('body', d2.text, sb), ('header', d2.masterstyles, sh)):
        ps = sec.getElementsByType(text.P)
        if len(ps) != 1:
            bad.append(('roundtrip-saveload', '%s: %d paragraphs after save+load, 1 before' % (what, len(ps)))); continue
        got = teletype.extractText(ps[0])
        if got != s:
            k = next((i for i, (a, b) in enumerate(zip(got, s)) if a != b), min(len(got), len(s)))
            bad.append(('roundtrip-saveload', '%s paragraph (%d characters): after save+load extractText gave %d characters, first difference at character %d (%r vs %r)'
                        % (what, len(s), len(got), k, got[k:k + 6], s[k:k + 6])))
    return bad, hit, at


def run_one(teletype, P, s, prefill=None):
    p = P()
    before = u''
    if prefill:
        teletype.addTextToElement(p, prefill)
        before = teletype.extractText(p)
    k = len(p.childNodes)
    teletype.addTextToElement(p, s)
    return p, before, p.childNodes[k:]


# ---------------------------------------------------------------- every character XML can represent, through save + load
def is_xml_char(o):
    """the Char production of XML 1.0: "any other characters XML can represent" of the property text"""
    return o in (0x9, 0xA, 0xD) or 0x20 <= o <= 0xD7FF or 0xE000 <= o <= 0xFFFD or 0x10000 <= o <= 0x10FFFF


def is_discouraged(o):
    """the class of the known finding KF-C02-1 (the writer replaces these although XML can represent them)"""
    return 0x7f <= o <= 0x84 or 0x86 <= o <= 0x9f or (o >= 0x1fffe and (o & 0xffff) >= 0xfffe)


def class_boundary_codepoints():
    """both sides of every boundary between classes of code points (XML Char production, C0/C1 controls, surrogates,
    non-character blocks, plane ends), restricted to XML Chars"""
    b = [0x9, 0xA, 0xD, 0x20, 0x21, 0x7E, 0x7F, 0x80, 0x84, 0x85, 0x86, 0x9F, 0xA0, 0xFF, 0x100, 0x7FF, 0x800, 0xD7FF, 0xE000, 0xF8FF, 0xF900,
         0xFDCF, 0xFDD0, 0xFDEF, 0xFDF0, 0xFDFA, 0xFDFF, 0xFE00, 0xFEFF, 0xFFF0, 0xFFFC, 0xFFFD]
    for plane in range(1, 17):
        b += [plane << 16, (plane << 16) + 1, (plane << 16) + 0xFFFD, (plane << 16) + 0xFFFE, (plane << 16) + 0xFFFF]
    return [o for o in b if is_xml_char(o)]


def saveload_paragraphs(teletype, P, OpenDocumentText, load, strings):
    """one document, one paragraph per string, saved and loaded: the extracted strings (None when the paragraph count differs)"""
    doc = OpenDocumentText()
    for s in strings:
        p = P(); teletype.addTextToElement(p, s); doc.text.addElement(p)
    buf = io.BytesIO(); doc.save(buf); buf.seek(0)
    ps = load(buf).getElementsByType(P)
    if len(ps) != len(strings):
        return None
    return [teletype.extractText(p) for p in ps]


def all_chars_check(chk, drv, teletype, P, OpenDocumentText, load):
    """EVERY character XML 1.0 can represent (all 1,112,030 of them, 17 strings of up to 65,536 consecutive code points) and
    strings that put both sides of every code-point class boundary between blanks, tabs and line breaks: inserted with the
    helper, extracted directly, and extracted after save()+load().  Expected (property text): the string itself.  A string that
    comes back different is narrowed to single code points, each confirmed on its own in a fresh document (`a<c>b`)."""
    chunks = [u''.join(chr(c) for c in range(lo, lo + 0x10000) if is_xml_char(c)) for lo in range(0, 0x110000, 0x10000)]
    mixed = []
    for o in class_boundary_codepoints():
        c = chr(o)
        mixed.append(u'a ' + c + u'  ' + c + c + u'\t' + c + u'\n' + c + u' ')
    strings = chunks + mixed
    # correspondence: the model is driven through the same characters, in pieces of 4096 (its buffer append is quadratic) -
    # quick: the whole BMP and both ends of every other plane; thorough: everything
    pieces = list(mixed)
    for ci, s in enumerate(chunks):
        cut = [s[i:i + 4096] for i in range(0, len(s), 4096)]
        pieces += cut if (ci == 0 or chk.tier != 'quick') else [cut[0][:1024], cut[-1][-1024:]]
    for s, ans in zip(pieces, drv.batch('enc ' + enc_str(s) for s in pieces)):
        p, _, new = run_one(teletype, P, s)
        impl = 'ok ' + ' '.join(dump_nodes(new))
        chk.corr(); chk.count('all_chars_model_pieces')
        if impl.strip() != ans.strip():
            chk.corr_diff({'s': enc_str(s[:40]), 'length': len(s)}, short(impl), short(ans), 'nodes appended by addTextToElement (every XML character)')
    for s in strings:
        p, _, new = run_one(teletype, P, s)
        impl = 'ok ' + ' '.join(dump_nodes(new))
        chk.count('all_chars_strings'); chk.count('all_chars_codepoints', len(s))
        chk.case(('all-chars', len(s), enc_str(s[:3])))
        got = teletype.extractText(p)
        if got != s:
            k = next((i for i in range(min(len(got), len(s))) if got[i] != s[i]), min(len(got), len(s)))
            one = u'a' + s[k:k + 1] + u'b'
            p1, _, _ = run_one(teletype, P, one)
            if teletype.extractText(p1) != one:
                chk.fail('roundtrip-direct', {'s': enc_str(one)}, 'extractText gave %r for %r' % (teletype.extractText(p1), one))
            else:
                chk.fail('roundtrip-direct', {'s': enc_str(s)}, 'extractText differs at offset %d: %r for %r' % (k, got[k - 4:k + 4], s[k - 4:k + 4]))
        if not clean_nodes(new):
            chk.fail('raw-whitespace', {'s': enc_str(s)}, 'inserted nodes %s' % short(impl))
    try:
        back = saveload_paragraphs(teletype, P, OpenDocumentText, load, strings)
    except Exception as e:
        # save() or load() of a document made of nothing but XML characters raised (seeded change C17-r7m2: only the first 64 KiB of a
        # part decoded): the strings one by one tell which of them does it
        bad = None
        for one in strings:
            try:
                saveload_paragraphs(teletype, P, OpenDocumentText, load, [one])
            except Exception as e1:
                bad = (one, e1); break
        one, e1 = bad if bad else (u''.join(strings), e)
        chk.fail('roundtrip-saveload', {'s': enc_str(one), 'mode': 'saveload'},
                 'save+load of text inserted with the helper raises %s: %s' % (type(e1).__name__, short(str(e1)))); return
    if back is None:
        chk.fail('roundtrip-saveload', {'s': enc_str(mixed[0]), 'mode': 'saveload'}, 'paragraph count differs after save+load'); return
    suspects = []
    for s, got in zip(strings, back):
        chk.count('saveload')
        if got == s:
            continue
        if len(got) == len(s):
            suspects += [s[i] for i in range(len(s)) if got[i] != s[i]]
        else:
            suspects += list(s)
    seen = set(); suspects = [c for c in suspects if not (c in seen or seen.add(c))]
    confirmed = 0
    for off in range(0, len(suspects), 2048):
        if confirmed >= 40:
            break
        part = [u'a' + c + u'b' for c in suspects[off:off + 2048]]
        res = saveload_paragraphs(teletype, P, OpenDocumentText, load, part) or [None] * len(part)
        for one, got in zip(part, res):
            if got == one:
                continue
            confirmed += 1
            if is_discouraged(ord(one[1])) and got == u'a�b':
                # the class of KF-C02-1 seen through the whitespace helper: known finding KF-C17-1, its own signature
                chk.count('known_roundtrip-saveload:discouraged-codepoint')
                chk.fail('roundtrip-saveload:discouraged-codepoint', {'s': enc_str(one), 'mode': 'saveload'},
                         'after save+load extractText gave %r for %r (U+%04X is a character XML 1.0 can represent; the writer replaces the discouraged code points)' % (got, one, ord(one[1])))
            elif confirmed <= 40:
                chk.fail('roundtrip-saveload', {'s': enc_str(one), 'mode': 'saveload'},
                         'after save+load extractText gave %r for %r (U+%04X is a character XML 1.0 can represent)' % (got, one, ord(one[1])))
    if suspects and not confirmed:
        # only wrong in company: report the shortest of the strings that came back different
        s, got = min(((s, g) for s, g in zip(strings, back) if g != s), key=lambda x: len(x[0]))
        chk.fail('roundtrip-saveload', {'s': enc_str(s), 'mode': 'saveload'}, 'after save+load extractText gave %r for %r' % (short(got), short(s)))


def run(chk, replay=None):
    from odf import teletype
    from odf.text import P
    from odf.opendocument import OpenDocumentText, load
    chk.rule = ('all strings of length <= %d over {SP,TAB,LF,CR,a,<,&} plus seeded random strings <= 40 over a wider alphabet; '
                'every XML 1.0 character (17 strings of consecutive code points) and both sides of every code-point class boundary between '
                'blanks/tabs/line breaks, directly and after save+load; non-trivial = distinct string containing at least one of SP/TAB/LF' % (6 if chk.tier == 'thorough' else 4))
    if replay is not None and replay['input'].get('big'):
        b = replay['input']['big']
        bad, hit, at = run_big(teletype, b['pad'], tuple(b['orders']), b.get('at'))
        print('replay: first multi-byte character at byte %r of content.xml / styles.xml; offsets 2^k inside a character: %r' % (at, hit))
        for sig, det in bad:
            print('replay: %s :: %s' % (sig, det))
        return 1 if bad else 0
    if replay is not None:
        s = dec_str(replay['input']['s'])
        p, before, new = run_one(teletype, P, s, replay['input'].get('prefill') and dec_str(replay['input']['prefill']))
        got = teletype.extractText(p)
        print('replay: s=%r nodes=%s extract=%r' % (s, dump_nodes(new), got))
        if replay['input'].get('mode') == 'saveload':
            try:
                back = saveload_paragraphs(teletype, P, OpenDocumentText, load, [s])
            except Exception as e:
                print('replay: save+load raises %s: %s' % (type(e).__name__, short(str(e))))
                return 1
            print('replay: after save+load extract=%r' % (short(back[0]) if back and back[0] is not None else back,))
            if back != [s]:
                return 1
        return 0 if got == before + s and clean_nodes(new) else 1
    chk.prove(modules=['OdfModel.Props.C17', 'OdfModel.Props.C17SaveLoad', 'OdfModel.Props.C17Merge'], drivers=['drv_teletype'])
    drv = chk.driver('drv_teletype')
    cases = list(gen_strings(chk))
    # ---- correspondence + direct oracles
    answers = drv.batch('enc ' + enc_str(s) for s, _ in cases)
    for (s, kind), ans in zip(cases, answers):
        p, _, new = run_one(teletype, P, s)
        impl = 'ok ' + ' '.join(dump_nodes(new))
        chk.corr()
        if impl.strip() != ans.strip():
            chk.corr_diff({'s': enc_str(s)}, impl, ans, 'nodes appended by addTextToElement')
        chk.case(s if len(s) < 200 else (len(s), hash(s)), nontrivial=any(c in s for c in u' \t\n'), sample={'s': s, 'nodes': impl} if kind == 'random' else None)
        chk.count(kind)
        for c in set(s) & set(u' \t\n\r'):
            chk.count('has_' + {u' ': 'SP', u'\t': 'TAB', u'\n': 'LF', u'\r': 'CR'}[c])
        got = teletype.extractText(p)
        if got != s:
            chk.fail('roundtrip-direct', {'s': enc_str(s)}, 'extractText gave %r for %r' % (short(got), short(s)))
        if not clean_nodes(new):
            chk.fail('raw-whitespace', {'s': enc_str(s)}, 'inserted nodes %s' % short(impl))
    # ---- every character XML can represent, and both sides of every code-point class boundary, directly and through save+load
    all_chars_check(chk, drv, teletype, P, OpenDocumentText, load)
    # ---- appended to an element that already has content
    pre = [u'x', u'x ', u' ', u'a\tb', u'  ', u'q\n']
    for i, (s, kind) in enumerate(cases):
        if kind == 'exhaustive' and len(s) > 3 and chk.tier != 'thorough':
            continue
        pf = pre[i % len(pre)]
        p, before, new = run_one(teletype, P, s, pf)
        got = teletype.extractText(p)
        chk.count('prefilled')
        if got != before + s or before != pf:
            chk.fail('roundtrip-append', {'s': enc_str(s), 'prefill': enc_str(pf)}, 'extractText gave %r, expected %r' % (got, pf + s))
        if not clean_nodes(new):
            chk.fail('raw-whitespace', {'s': enc_str(s), 'prefill': enc_str(pf)}, 'inserted nodes %s' % dump_nodes(new))
    # ---- histories: calls follow one another in one process, some of them refused half-way (an element that takes no text).
    # Every call is independent in the model (a fresh encoder per call): a successful call must insert exactly `enc [] s`
    # whatever happened before it.
    from odf.text import List as TList, Span
    from odf.element import IllegalText, IllegalChild
    rng = chk.rng
    pool = [s for s, k in cases if k == 'random'][:400] + [u'a  b', u' x', u'q\t', u'end ']
    for h in range(150 if chk.tier == 'quick' else 1500):
        steps = []
        for _ in range(rng.randint(2, 5)):
            s = rng.choice(pool)
            refuse = rng.random() < 0.35
            steps.append((s, refuse))
            el = TList() if refuse else rng.choice([P, Span])()
            k = len(el.childNodes)
            try:
                teletype.addTextToElement(el, s)
                raised = False
            except (IllegalText, IllegalChild):
                raised = True
            chk.count('history_calls')
            if raised:
                continue
            new = el.childNodes[k:]
            got = teletype.extractText(el)
            ans = drv.ask('enc ' + enc_str(s))
            impl = 'ok ' + ' '.join(dump_nodes(new))
            chk.corr()
            if impl.strip() != ans.strip():
                chk.corr_diff({'history': [(enc_str(a), b) for a, b in steps]}, impl, ans, 'nodes appended by the last call of a history')
            if got != s or not clean_nodes(new):
                chk.fail('roundtrip-after-history', {'history': [(enc_str(a), b) for a, b in steps]},
                         'after %d earlier calls (some refused) extractText gave %r for %r' % (len(steps) - 1, got, s))
        chk.case(('history', h), sample={'history': [(a, b) for a, b in steps]} if h < 2 else None)
    # ---- after save and load (batched: one paragraph per string)
    B = 400
    for off in range(0, len(cases), B):
        batch = cases[off:off + B]
        doc = OpenDocumentText()
        for s, _ in batch:
            p = P(); teletype.addTextToElement(p, s); doc.text.addElement(p)
        buf = io.BytesIO(); doc.save(buf); buf.seek(0)
        d2 = load(buf)
        ps = d2.getElementsByType(P)
        if len(ps) != len(batch):
            chk.fail('roundtrip-saveload', {'s': [enc_str(s) for s, _ in batch[:3]]}, 'paragraph count %d != %d' % (len(ps), len(batch)))
            continue
        model = drv.batch('enc ' + enc_str(s) for s, _ in batch)
        # a second cycle (C17Merge.mergeText_idem / roundtrip_after_merges): the loaded document saved and loaded again
        ps2 = None
        try:
            buf2 = io.BytesIO(); d2.save(buf2); buf2.seek(0)
            ps2 = load(buf2).getElementsByType(P)
        except Exception as e:
            chk.fail('roundtrip-saveload', {'s': [enc_str(s) for s, _ in batch[:3]], 'mode': 'saveload2'}, 'second save+load raises %s' % short(repr(e)))
        if ps2 is not None and len(ps2) == len(batch):
            for (s, _), p1, p2 in zip(batch, ps, ps2):
                if teletype.extractText(p1) != s:
                    continue
                chk.count('saveload_twice')
                g2 = teletype.extractText(p2)
                if g2 != s:
                    chk.fail('roundtrip-saveload', {'s': enc_str(s), 'mode': 'saveload2'}, 'after two save+load cycles extractText gave %r for %r' % (short(g2), short(s)))
                else:
                    a, b = ' '.join(dump_nodes(p1.childNodes)), ' '.join(dump_nodes(p2.childNodes))
                    chk.corr()
                    if a != b:
                        chk.corr_diff({'s': enc_str(s), 'mode': 'saveload2'}, b, a, 'children after two save+load cycles vs after one (mergeText_idem)')
        elif ps2 is not None:
            chk.fail('roundtrip-saveload', {'s': [enc_str(s) for s, _ in batch[:3]], 'mode': 'saveload2'}, 'paragraph count %d != %d after the second cycle' % (len(ps2), len(batch)))
        for ((s, _), p), ans in zip(zip(batch, ps), model):
            chk.count('saveload')
            got = teletype.extractText(p)
            if got != s:
                chk.fail('roundtrip-saveload', {'s': enc_str(s), 'mode': 'saveload'}, 'after save+load extractText gave %r for %r' % (short(got), short(s)))
            else:
                # C17Merge.saveload_identity: mergeText (enc [] s) = enc [] s - the loaded children are node for node the model's list
                # (only where the string itself came back, so the character replacement of KF-C17-1 stays with its own signature)
                impl = 'ok ' + ' '.join(dump_nodes(p.childNodes))
                chk.corr(); chk.count('saveload_structure')
                if impl.strip() != ans.strip():
                    chk.corr_diff({'s': enc_str(s), 'mode': 'saveload'}, impl, ans, 'children of the paragraph after save+load vs enc [] s (saveload_identity)')
    # ---- big parts: multi-byte characters across every byte offset 2^12..2^17 of content.xml and styles.xml
    seen = {}; base = {}
    for pad in (0, 1, 2):
        for orders in ([(0, 1)] if chk.tier == 'quick' else [(0, 1), (1, 2), (2, 0)]):
            # the three documents place their characters at consecutive byte offsets (whatever the part header of this save is)
            bad, hit, at = run_big(teletype, pad, orders, None if pad == 0 else [base[orders][0] + pad, base[orders][1] + pad])
            if pad == 0:
                base[orders] = at
            chk.case(('big', pad, orders), nontrivial=True)
            chk.count('big_parts', 2)
            for n, ks in sorted(hit.items()):
                for k in ks:
                    seen.setdefault(n, set()).add(k)
                    chk.count('straddle:%s:2^%d' % (n, k))
            for sig, det in bad:
                chk.fail(sig, {'big': {'pad': pad, 'orders': list(orders), 'at': at}, 'mode': 'saveload-big'}, det)
    for n in (u'content.xml', u'styles.xml'):
        for k in L.STRADDLE_K:
            if k not in seen.get(n, ()):
                chk.count('straddle-not-reached:%s:2^%d' % (n, k))      # generator coverage, visible in the evidence
    return chk.finish()

# -*- coding: utf-8 -*-
"""C07 - a refused or failed operation leaves the document untouched.

proof:          lean/OdfModel/Props/C07.lean: closed forms of removeChild / appendChild / insertBefore and the
                atomicity theorems (`run op h = (h', error e) -> h' = h`) over a state monad that returns the
                heap as mutated so far, incl. the constructor protocol (attributes, required check, attach last)
correspondence: histories in which ~40 % of the calls are designed to fail, run on the real objects and on drv_dom;
                answer (ok / err <class>) and full snapshot (links, child lists, attributes) compared after every step
oracle:         deep snapshot of the real objects (every node's links / children / attributes / data, the whole
                document tree from the top node, getElementsByType for six factories, getStyleByName for every name
                used) taken before every call and compared after every call that raised; a refused element must
                not be reachable anywhere; in addition every factory function of the library (all wrapper factories that act
                before / after Element.__init__, a sample of the plain ones) is called with parent= in 11 calling conventions
"""
import json
import dom_common as D

QUERY_FACTORIES = ['P', 'Span', 'H', 'Section', 'List', 'Style']


# ---------------------------------------------------------------------------------------------
# oracle: deep snapshot of the real objects (plain traversal, identity = id())
def deep_snapshot(w, style_names):
    snap = {}
    for i in sorted(w.nodes):
        n = w.nodes[i]
        rec = [id(n.parentNode) if n.parentNode is not None else None,
               id(n.previousSibling) if n.previousSibling is not None else None,
               id(n.nextSibling) if n.nextSibling is not None else None,
               [id(c) for c in n.childNodes]]
        if n.nodeType == 1:
            rec.append(sorted((k, v) for k, v in (getattr(n, 'attributes', None) or {}).items()))
            rec.append(id(n.ownerDocument) if getattr(n, 'ownerDocument', None) is not None else None)
        else:
            rec.append(n.data)
        snap['node %d' % i] = rec
    if w.doc is not None:
        def walk(n, depth):
            if depth > 60:
                return ['TOO-DEEP', id(n)]         # a cyclic "tree" (only a broken library builds one)
            if n.nodeType == 1:
                return ['E', id(n), n.qname, sorted((k, v) for k, v in n.attributes.items()),
                        [walk(c, depth + 1) for c in n.childNodes]]
            return ['T', id(n), n.nodeType, n.data]
        snap['tree'] = walk(w.doc.topnode, 0)
        # the type index as the call under test left it, read BEFORE anything that may rebuild it (getStyleByName on a document
        # without registered styles re-walks the tree and would heal an index a refused call had damaged - how the re-evaluation
        # of seeded change C07-r2m2 / C07-r6m2 went quiet after b44089a); order-insensitive, because the rebuild below may
        # re-order the same entries
        for f in QUERY_FACTORIES:
            snap['byTypeSet ' + f] = sorted(id(e) for e in w.doc.getElementsByType(D.factory(f)))
        # name lookups next: on a document without styles each of them rebuilds the element index (document order);
        # taken in this order the snapshot is idempotent, so a difference is the doing of the call under test
        for nm in sorted(style_names):
            s = w.doc.getStyleByName(nm)
            snap['style ' + nm] = None if s is None else id(s)
        for f in QUERY_FACTORIES:
            snap['byType ' + f] = [id(e) for e in w.doc.getElementsByType(D.factory(f))]
    return snap


def all_ids(x, acc):
    if isinstance(x, dict):
        for v in x.values(): all_ids(v, acc)
    elif isinstance(x, (list, tuple)):
        for v in x: all_ids(v, acc)
    elif isinstance(x, int) and not isinstance(x, bool):
        acc.add(x)
    return acc


def first_difference(a, b):
    for k in sorted(set(a) | set(b)):
        if a.get(k) != b.get(k):
            return k
    return None


# ---------------------------------------------------------------------------------------------
# op generation against the live world
class Gen(object):
    def __init__(self, w, rng):
        self.w = w; self.rng = rng
        self.next_id = 0
        self.style_names = set([u'Nope'])
        self.fname = {}
        self.ghosts = False

    def fresh(self):
        self.next_id += 1
        return self.next_id - 1

    def prologue(self):
        ops = []
        if self.w.attached:
            ops.append(['new', 'e', self.fresh(), '@doctext'])
            ops.append(['new', 'e', self.fresh(), '@docstyles'])
        for f in ['Section', 'P', 'Span', 'H', 'List', 'P']:
            ops.append(['new', 'e', self.fresh(), f])
        ops.append(['new', 't', self.fresh(), u''])           # an empty text node
        ops.append(['new', 't', self.fresh(), None])
        ops.append(['new', 'c', self.fresh(), u'' if (self.rng and self.rng.random() < 0.5) else None])
        for op in ops:
            if op[1] == 'e':
                self.fname[op[2]] = op[3]
        return ops

    # ---- views of the live state
    def elems(self):
        return [i for i in sorted(self.w.nodes) if self.w.nodes[i].nodeType == 1 and id(self.w.nodes[i]) not in self.refused_ids()]
    def texts(self):
        return [i for i in sorted(self.w.nodes) if self.w.nodes[i].nodeType != 1]
    def refused_ids(self):
        return getattr(self, '_refused', set())
    def kids(self, p):
        return [self.w.nid(c) for c in self.w.nodes[p].childNodes]
    def movable(self, p, c):
        """not the caller error the property excludes, not a skeleton node"""
        return not self.w.is_ancestor_or_self(c, p) and c not in self.w.roots and not self.lists_reach(c, p)
    def lists_reach(self, c, p):
        """is p below (or equal to) c when one follows the CHILD LISTS (after pointer surgery - 'ghost' ops - lists and parent
        pointers can disagree; putting a node under something its own child lists lead to is the excluded caller error)"""
        if not self.ghosts:
            return False
        target = self.w.nodes[p]; seen = set(); todo = [self.w.nodes[c]]
        while todo:
            n = todo.pop()
            if n is target:
                return True
            if id(n) in seen:
                continue
            seen.add(id(n))
            todo.extend(getattr(n, 'childNodes', ()))
        return False
    # ---- pointer surgery: nodes whose parent pointer and the child lists disagree
    def ghost_ops(self):
        """candidate surgery ops in the live state: (kind, op)"""
        E = self.elems(); T = self.texts(); out = []
        N = self.w.nodes
        for c in E + T:
            if c in self.w.roots:
                continue
            par = self.w.nid(N[c].parentNode)
            listed = par not in (None, 'X') and any(k is N[c] for k in N[par].childNodes)
            if listed:
                out.append(('copy', ['ghost', 'copy', None, c]))
                out.append(('handrm', ['ghost', 'handrm', par, c]))
            elif N[c].parentNode is None:
                for p in E:
                    if p != c and self.movable(p, c):
                        out.append(('setparent', ['ghost', 'setparent', c, p]))
        return out
    def ghost_op(self):
        cands = self.ghost_ops()
        if not cands:
            return None
        kind = self.rng.choice(sorted(set(k for k, _ in cands)))
        op = list(self.rng.choice([o for k, o in cands if k == kind]))
        return self.claim(op)
    def claim(self, op):
        """give a surgery op its new id and remember that lists and pointers may now disagree"""
        if op[1] == 'copy':
            op[2] = self.fresh()
            self.fname[op[2]] = self.fname.get(op[3])
        self.ghosts = True
        return op
    def stale(self):
        """(g, p): node g says 'my parent is p' but p's child list does not hold it"""
        N = self.w.nodes; out = []
        for g in self.elems() + self.texts():
            p = self.w.nid(N[g].parentNode)
            if p not in (None, 'X') and g not in self.w.roots and N[p].nodeType == 1 and not any(k is N[g] for k in N[p].childNodes):
                out.append((g, p))
        return out
    def qname(self, i):
        return getattr(self.w.nodes[i], 'qname', None)
    def would_allow(self, p, qn):
        from odf import grammar
        ac = grammar.allowed_children.get(self.qname(p))
        return ac is None or qn in ac
    def allows_text(self, p):
        from odf import grammar
        return self.qname(p) in grammar.allows_text
    def parents_for(self, fname):
        qn = D.factory(fname)(check_grammar=False).qname
        return [p for p in self.elems() if self.would_allow(p, qn)]

    # ---- calls that should succeed
    def good_op(self):
        r = self.rng; E = self.elems(); T = self.texts()
        for _ in range(30):
            k = r.choice(['adde', 'adde', 'addt', 'addc', 'append', 'insb', 'rm', 'seta', 'setns', 'rma', 'ctor', 'ctor', 'ctorp', 'ctorp'])
            if k == 'adde':
                p = r.choice(E); c = r.choice(E)
                if self.movable(p, c) and self.would_allow(p, self.qname(c)): return ['adde', p, c]
            elif k in ('addt', 'addc'):
                P = [p for p in E if self.allows_text(p)]
                if P: return [k, r.choice(P), self.fresh(), r.choice([u'x', u'', u'a b']) if k == 'addt' else r.choice([u'cd', u''])]
            elif k == 'append':
                p = r.choice(E); c = r.choice(E + T)
                if self.movable(p, c): return ['append', p, c]
            elif k == 'insb':
                p = r.choice(E); c = r.choice(E + T); ks = self.kids(p)
                if self.movable(p, c): return ['insb', p, c, r.choice(ks) if ks and r.random() < 0.8 else None]
            elif k == 'rm':
                P = [p for p in E if [c for c in self.kids(p) if c != 'X' and c not in self.w.roots]]
                if P:
                    p = r.choice(P); return ['rm', p, r.choice([c for c in self.kids(p) if c != 'X'])]
            elif k == 'seta':
                P = [e for e in E if self.fname.get(e) in ('P', 'H', 'Span')]
                if P: return ['seta', r.choice(P), 'stylename', r.choice([u'St1', u'St2'])]
                P = [e for e in E if self.fname.get(e) == 'Style']
                if P: return ['seta', r.choice(P), 'family', r.choice([u'text', u'paragraph'])]
            elif k == 'setns':
                P = [e for e in E if self.fname.get(e) in ('P', 'H')]
                if P: return ['setns', r.choice(P), D.TEXTNS, u'class-names', r.choice([u'c1', u'c2'])]
            elif k == 'rma':
                P = [e for e in E if self.fname.get(e) in ('P', 'H', 'Span') and (D.TEXTNS, u'style-name') in self.w.nodes[e].attributes]
                if P: return ['rma', r.choice(P), 'stylename']
            elif k in ('ctor', 'ctorp'):
                return self.ctor_op(True, None, with_parent=(k == 'ctorp'))
        return ['seta', E[-1], 'stylename', u'St1'] if self.fname.get(E[-1]) == 'P' else ['rm', E[0], E[0]]

    def meta(self, base):
        """now and then a name / value that is a directive to whatever formats a message or a key out of it"""
        r = self.rng
        if r is not None and r.random() < 0.35:
            return base + r.choice([u'%', u'%s', u'%(x)s', u'%d', u'{}', u'{0}', u'{', u'\\', u'50%'])
        return base

    def ctor_op(self, good, flaw, with_parent):
        """a factory call; flaw in (None, 'required', 'unknown', 'value', 'text', 'cdata', 'child', 'required+text')"""
        r = self.rng
        i = self.fresh(); tid = None; cid = None
        if flaw in (None, 'unknown'):
            fname = r.choice(['P', 'Span', 'H', 'Section', 'Style', 'List'])
        elif flaw == 'required' or flaw == 'required+text':
            fname = r.choice(['H', 'Section', 'Style']) if flaw == 'required' else 'H'
        elif flaw == 'value':
            fname = r.choice(['Style', 'Section'])
        elif flaw in ('text', 'cdata'):
            fname = r.choice(['List', 'Section'])
        else:
            fname = r.choice(['Span', 'Style', 'P'])
        kw = []
        sname = self.meta(u'S%d' % i)
        # valid arguments first
        if fname == 'H': kw.append(['outlinelevel', r.choice([1, 2])])
        if fname == 'Section': kw.append(['name', self.meta(u'sec%d' % i)])
        if fname == 'Style':
            kw += [['name', sname], ['family', r.choice([u'paragraph', u'text'])], ['displayname', self.meta(u'd%d' % i)]]
        if fname in ('P', 'H', 'Span') and r.random() < 0.5: kw.append(['stylename', u'St1'])
        if fname in ('P', 'H', 'Span') and r.random() < 0.4 and flaw not in ('text', 'cdata'):
            kw.insert(0, ['text', r.choice([u'hello', u''])]); tid = self.fresh()
        # then the flaw
        if flaw == 'required':
            kw = [x for x in kw if x[0] not in ('outlinelevel', 'name')]
        elif flaw == 'required+text':
            kw = [x for x in kw if x[0] not in ('outlinelevel', 'text')]
            kw.insert(0, ['text', u'heading']); tid = self.fresh()
        elif flaw == 'unknown':
            kw.insert(r.randint(0, len(kw)), [r.choice(['bogus', 'bogus', 'bo%sgus', 'bo{}gus']), self.meta(u'1')])
        elif flaw == 'value':
            if fname == 'Style':
                kw = [x if x[0] != 'family' else ['family', self.meta(u'bogus')] for x in kw]
            else:
                kw.append(['protected', self.meta(u'maybe')])
        elif flaw == 'text':
            kw.insert(0, ['text', u'abc']); tid = self.fresh()
        elif flaw == 'cdata':
            kw.insert(0, ['cdata', u'abc']); cid = self.fresh()
        parent = None
        if with_parent:
            qn = D.factory(fname)(check_grammar=False).qname
            if flaw == 'child':
                cand = [p for p in self.elems() if not self.would_allow(p, qn)]
            else:
                cand = [p for p in self.elems() if self.would_allow(p, qn)]
            if not cand:
                return None
            parent = r.choice(cand)
        elif flaw == 'child':
            return None
        if fname == 'Style':
            self.style_names.add(sname)
        self.fname[i] = fname
        return ['ctor', i, fname, kw, parent, tid, cid]

    # ---- calls designed to fail: (label, op)
    def bad_ops(self, pick_all=False):
        r = self.rng; E = self.elems(); T = self.texts(); out = []
        def some(l):
            return l if pick_all else ([r.choice(l)] if l else [])
        for flaw in ['required', 'unknown', 'value', 'text', 'cdata', 'required+text']:
            for wp in (False, True):
                op = self.ctor_op(False, flaw, wp)
                if op: out.append(('factory%s:%s' % ('+parent' if wp else '', flaw), op))
        op = self.ctor_op(False, 'child', True)
        if op: out.append(('factory+parent:child', op))
        for p in some([p for p in E]):
            for c in some([c for c in E if self.movable(p, c) and not self.would_allow(p, self.qname(c))]):
                out.append(('addElement:child', ['adde', p, c]))
        for p in some([p for p in E if not self.allows_text(p)]):
            out.append(('addText:text', ['addt', p, self.fresh(), u'no text here']))
            out.append(('addCDATA:text', ['addc', p, self.fresh(), u'no cdata here']))
        for e in some([e for e in E if self.fname.get(e) in ('P', 'H', 'Span', 'Section', 'List', 'Style')]):
            out.append(('setAttribute:unknown', ['seta', e, r.choice(['bogus', 'bo%sgus', 'bo{0}gus']), self.meta(u'1')]))
            out.append(('removeAttribute:unknown', ['rma', e, 'bogus']))
        for e in some([e for e in E if self.fname.get(e) == 'Style']):
            out.append(('setAttribute:value', ['seta', e, 'family', self.meta(u'bogus')]))
            out.append(('setAttrNS:value', ['setns', e, D.STYLENS, u'family', self.meta(u'bogus')]))
        for e in some([e for e in E if self.fname.get(e) == 'Section']):
            out.append(('setAttribute:value', ['seta', e, 'protected', self.meta(u'maybe')]))
            out.append(('setAttrNS:value', ['setns', e, D.TEXTNS, u'protected', self.meta(u'maybe')]))
        for e in some([e for e in E if self.fname.get(e) in ('P', 'H', 'Span') and (D.TEXTNS, u'style-name') not in self.w.nodes[e].attributes]):
            out.append(('removeAttribute:absent', ['rma', e, 'stylename']))
        for p in some(E):
            ks = self.kids(p)
            non = [c for c in E + T if c not in ks]
            for ref in some(non):
                cn = [n for n in E + T if self.movable(p, n) and n != ref]
                if pick_all:
                    # the new child: one that hangs elsewhere, one child of p, one detached node
                    att = [n for n in cn if self.w.nodes[n].parentNode is not None and n not in ks]
                    det = [n for n in cn if self.w.nodes[n].parentNode is None]
                    cn = att[:1] + [n for n in cn if n in ks][:1] + det[:1]
                for n in some(cn):
                    out.append(('insertBefore:notachild', ['insb', p, n, ref]))
            for c in some([c for c in non if c not in self.w.roots]):
                out.append(('removeChild:notachild', ['rm', p, c]))
        # a node whose parent POINTER names p although p's child list does not hold it (shallow copy of a child, a child struck
        # from the list by hand, a parent assigned by hand): as reference child / child to remove it is "not a child" - whatever
        # the new child is and wherever that lives; as the node to insert, its "parent" cannot give it up
        stale = self.stale(); stale_nodes = set(g for g, _ in stale)
        for g, p in some(stale):
            ks = self.kids(p)
            cn = [n for n in E + T if self.movable(p, n) and n != g]
            att = [n for n in cn if self.w.nodes[n].parentNode is not None and n not in ks and n not in stale_nodes]
            for n in (att[:2] + [n for n in cn if n in ks][:1] + [n for n in cn if self.w.nodes[n].parentNode is None][:1]) if pick_all else (some(att) or some(cn)):
                out.append(('insertBefore:stale-ref', ['insb', p, n, g]))
            out.append(('removeChild:stale-ref', ['rm', p, g]))
            for q in some([q for q in E if self.movable(q, g)]):
                out.append(('appendChild:stale-new', ['append', q, g]))
                qk = self.kids(q)
                out.append(('insertBefore:stale-new', ['insb', q, g, qk[0] if qk and qk[0] != g else None]))
                if self.w.nodes[g].nodeType == 1 and self.would_allow(q, self.qname(g)):
                    out.append(('addElement:stale-new', ['adde', q, g]))
        for t in some(T):
            for c in some([c for c in E + T if c != t and c not in self.w.roots]):
                out.append(('appendChild:textparent', ['append', t, c]))
                out.append(('insertBefore:textparent', ['insb', t, c, None]))
                out.append(('removeChild:textparent', ['rm', t, c]))
        return out


# ---------------------------------------------------------------------------------------------
ENTRY = {'adde': 'addElement', 'addt': 'addText', 'addc': 'addCDATA', 'seta': 'setAttribute', 'setns': 'setAttrNS',
         'rma': 'removeAttribute', 'insb': 'insertBefore', 'rm': 'removeChild', 'append': 'appendChild', 'new': 'new',
         'ghost': 'pointer-surgery'}
def entry(op):
    """the entry point of a call (part of the finding signature)"""
    if op[0] == 'ctor':
        return 'factory+parent' if op[4] is not None else 'factory'
    return ENTRY[op[0]]


class History(object):
    """one history on a live world: ops are chosen against the current state, the oracle brackets every call"""
    def __init__(self, chk, attached, rng):
        self.chk = chk; self.attached = attached
        self.w = D.World(attached)
        self.g = Gen(self.w, rng)
        self.ops = []; self.lines = ['reset']; self.impl = ['ok']
        self.failed = None
        self.raised = 0; self.labels = []

    def do(self, op, label=None, bracket=True):
        w = self.w
        if bracket:
            if self.g.ghosts and w.doc is not None:
                # after pointer surgery the document's element index may list nodes the tree no longer holds; the name lookups of
                # the snapshot re-walk the tree and drop them.  Let that happen before "before" is taken: the comparison is
                # about what the CALL does, not about what the snapshot's own lookups do
                deep_snapshot(w, self.g.style_names)
            before = deep_snapshot(w, self.g.style_names)
        line = w.line(op)
        ans = w.apply(op)
        self.ops.append(op); self.lines.append(line); self.impl.append(ans)
        self.lines.append('snap'); self.impl.append(w.snapshot())
        if ans != 'ok' and not bracket:
            if self.failed is None:
                self.failed = ('setup-call-refused', len(self.ops) - 1, '%s raised %s' % (op, ans))
        elif ans != 'ok':
            self.raised += 1
            after = deep_snapshot(w, self.g.style_names)
            # nodes that did not exist before the call are not part of "the document as it was"
            for k in list(after):
                if k not in before:
                    del after[k]
            d = first_difference(before, after)
            if d is not None and self.failed is None:
                self.failed = ('changed-by-refused:' + entry(op), len(self.ops) - 1,
                               '%s raised %s but %r changed: %r -> %r' % (op, ans, d, before.get(d), after.get(d)))
            if op[0] == 'ctor' and op[1] in w.nodes:
                obj = w.nodes[op[1]]
                self.g.__dict__.setdefault('_refused', set()).add(id(obj))
                if id(obj) in all_ids(after, set()) and self.failed is None:
                    self.failed = ('refused-element-found', len(self.ops) - 1,
                                   '%s raised %s but the refused element is reachable from the document' % (op, ans))
            if ans.startswith('err Unexpected') and self.failed is None:
                self.failed = ('unexpected-exception:' + entry(op), len(self.ops) - 1, '%s raised %s' % (op, ans))
        return ans

    def correspond(self, drv):
        model = drv.batch(self.lines)
        self.chk.corr(len(self.ops))
        for j, (x, y) in enumerate(zip(self.impl, model)):
            if x != y:
                k = (j - 1) // 2
                self.chk.corr_diff({'attached': self.attached, 'ops': self.ops[:k + 1]}, x, y,
                                   'answer / snapshot after op %d (%s)' % (k, self.lines[j]))
                return False
        return True


def replay_ops(attached, ops):
    """re-run a recorded history with the oracle only"""
    h = History(None, attached, None)
    names = set([u'Nope'])
    for op in ops:
        if op[0] == 'ctor':
            for n, v in op[3]:
                if n == 'name': names.add(v)
    h.g.style_names = names
    for op in ops:
        if op[0] == 'new' and op[1] == 'e':
            h.g.fname[op[2]] = op[3]
        if op[0] == 'ctor':
            h.g.fname[op[1]] = op[2]
        if op[0] == 'ghost':
            h.g.ghosts = True
            h.do(op, bracket=False)
            continue
        h.do(op)
        if h.failed:
            break
    return h


def shrink(attached, ops, sig):
    cur = list(ops)
    changed = True
    while changed:
        changed = False
        for i in range(len(cur) - 2, -1, -1):
            if cur[i][0] == 'new':
                continue
            if cur[i][0] == 'ghost' and cur[i][1] == 'copy' and any(cur[i][2] in o[1:] for o in cur[i + 1:]):
                continue
            cand = cur[:i] + cur[i + 1:]
            try:
                h = replay_ops(attached, cand)
            except Exception:
                continue
            if h.failed and h.failed[0] == sig:
                cur = cand[:h.failed[1] + 1]; changed = True
                break
    return cur


def report(chk, h):
    sig, idx, detail = h.failed
    ops = h.ops[:idx + 1]
    try:
        ops = shrink(h.attached, ops, sig)
    except RecursionError:
        pass
    chk.fail(sig, {'attached': h.attached, 'ops': ops}, detail)


# ---------------------------------------------------------------------------------------------
# every factory function of the library, called with parent= in all calling conventions (oracle only: the
# wrapper factories StyleElement / DrawElement / StyleRefElement act before or after Element.__init__)
FACTORY_MODULES = ['anim', 'chart', 'config', 'dc', 'dr3d', 'draw', 'form', 'manifest', 'math', 'meta', 'number', 'office',
                   'presentation', 'script', 'style', 'svg', 'table', 'text', 'xforms']
WRAPPERS = ('StyleElement', 'DrawElement', 'StyleRefElement')
CANDIDATE_VALUES = [u'n1', u'1', u'true', u'paragraph', u'1cm', u'simple', u'#000000', u'string', u'2020-01-01', u'a/b', u'0 0 1 1']


def all_factories():
    import importlib, types
    out = []
    for m in FACTORY_MODULES:
        try:
            mod = importlib.import_module('odf.' + m)
        except ImportError:
            continue
        for name, f in sorted(vars(mod).items()):
            if isinstance(f, types.FunctionType) and f.__module__ == mod.__name__ and name[:1].isupper() and name not in WRAPPERS:
                # "plain" = nothing but `return Element(qname=(…NS, '…'), **args)`; every factory that does more
                # (a wrapper, args.setdefault, own argument handling) is always exercised
                plain = all(n == 'Element' or n.endswith('NS') for n in f.__code__.co_names)
                out.append((m, name, f, not plain))
    return out


def required_kwargs(f):
    from odf import grammar
    from odf.attrconverters import AttrConverters
    probe = f(check_grammar=False)
    kw = []
    for key in (grammar.required_attributes.get(probe.qname) or ()):
        val = u'x'
        for v in CANDIDATE_VALUES:
            try:
                AttrConverters().convert(key, v, probe); val = v; break
            except Exception:
                continue
        kw.append((key[1].lower().replace('-', ''), val))
    return probe.qname, kw


def variants(req, par):
    from odf import style
    r = dict(req)
    named = dict(r); named.setdefault('name', u'n1')
    g1 = style.Style(name=u'g1', family=u'graphic'); g2 = style.Style(name=u'g2', family=u'graphic')
    pr = style.Style(name=u'pr', family=u'presentation'); para = style.Style(name=u'pa', family=u'paragraph')
    nofam = style.Style(name=u'nf', check_grammar=False)
    objs = [
        ('stylename graphic', dict(stylename=g1)), ('stylename paragraph', dict(stylename=para)),
        ('stylename nofamily', dict(stylename=nofam)), ('stylename string', dict(stylename=u'g1')),
        ('classnames graphic', dict(classnames=[g1, g2])), ('classnames presentation', dict(classnames=[pr])),
        ('classnames paragraph', dict(classnames=[para])), ('classnames empty', dict(classnames=[])),
        ('classnames mixed', dict(classnames=[g1, para])), ('classnames string', dict(classnames=u'g1')),
        ('stylename+classnames wrong', dict(stylename=g1, classnames=[para])),
    ]
    extra = []
    for label, kw in objs:
        extra.append((label, (lambda kw: lambda f: f(parent=par, **dict(r, **kw)))(kw)))
        extra.append((label + ' in attributes', (lambda kw: lambda f: f(attributes=dict(r, parent=par), **kw))(kw)))
    return extra + [
        ('kw', lambda f: f(parent=par, **r)),
        ('attributes', lambda f: f(attributes=dict(r, parent=par))),
        ('kw+attributes', lambda f: f(parent=par, attributes=dict(r))),
        ('bare', lambda f: f(parent=par)),
        ('kw nogrammar', lambda f: f(parent=par, check_grammar=False, **r)),
        ('attributes nogrammar', lambda f: f(attributes=dict(r, parent=par), check_grammar=False)),
        ('kw bogus', lambda f: f(parent=par, bogus=u'1', **r)),
        ('kw named', lambda f: f(parent=par, **named)),
        ('attributes named', lambda f: f(attributes=dict(named, parent=par))),
        ('kw named displayname', lambda f: f(parent=par, displayname=u'd', **named)),
        ('attributes named nogrammar', lambda f: f(attributes=dict(named, parent=par), check_grammar=False)),
    ]


def doc_snapshot(doc, f):
    def walk(n, depth):
        if depth > 50: return ['DEEP']
        if n.nodeType == 1:
            return [id(n), n.qname, sorted((k, v) for k, v in n.attributes.items()), [walk(c, depth + 1) for c in n.childNodes]]
        return [id(n), n.data]
    snap = {'tree': walk(doc.topnode, 0)}
    for nm in (u'n1', u'Nope'):
        st = doc.getStyleByName(nm)
        snap['style ' + nm] = None if st is None else id(st)
    try:
        snap['byType'] = [id(e) for e in doc.getElementsByType(f)]
    except Exception as e:
        snap['byType'] = 'raises %s' % type(e).__name__
    return snap


def wrapper_call(mod, name, label):
    """one factory call with parent=; returns None, or (detail) when a raising call changed the document"""
    import importlib
    from odf.opendocument import OpenDocumentText
    from odf.element import Element
    f = getattr(importlib.import_module('odf.' + mod), name)
    try:
        qname, req = required_kwargs(f)
    except Exception:
        return None
    doc = OpenDocumentText()
    par = Element(qname=(u'urn:verif:any', u'any'), check_grammar=False)    # no grammar entry: accepts any child
    doc.text.appendChild(par)
    call = dict(variants(req, par))[label]
    before = doc_snapshot(doc, f)
    try:
        call(f)
        return None
    except RecursionError:
        raise
    except Exception as e:
        after = doc_snapshot(doc, f)
        d = first_difference(before, after)
        if d is not None:
            return '%s.%s(%s) raised %s: %s -- but %r changed (the refused element is in the document)' % (
                mod, name, label, type(e).__name__, e, d)
    return None


# ---------------------------------------------------------------------------------------------
# side effects that run in OpenDocument hooks after the node is in the tree (build_caches, __register_stylename):
# styles with used names added to the style sections of a document, through every entry point; ANY exception counts
def hook_history(ops):
    """ops: ['mk', i, name] | ['adde'|'append', sec, i] | ['insb', sec, i] | ['ctor', sec, name] | ['rm', i] | ['rename', i, name];
    sec 0 = office:styles, 1 = office:automatic-styles.  Returns (index, detail) of the first raising call that changed the document"""
    from odf.opendocument import OpenDocumentText
    from odf import style
    doc = OpenDocumentText()
    secs = [doc.styles, doc.automaticstyles]
    st = {}
    # every name a call of this history mentions, what a clash renames it to, and a name nobody uses; plus (at snapshot time)
    # the names the style objects carry right now (the library stores some names encoded: 'Gray 50%' -> 'Gray_20_50%')
    given = set([u'A', u'B', u'MA', u'Nope'])
    for op in ops:
        if op[0] in ('mk', 'ctor', 'rename'):
            given.add(op[2])
    given |= set(u'M' + n for n in given)
    def snap():
        names = set(given)
        for e in st.values():
            n = e.attributes.get((D.STYLENS, u'name'))
            if n is not None:
                names.add(n); names.add(u'M' + n)
        names = sorted(names)
        def walk(n, depth):
            if depth > 50: return ['DEEP']
            if n.nodeType == 1:
                return [id(n), n.qname, sorted((k, v) for k, v in n.attributes.items()), [walk(c, depth + 1) for c in n.childNodes]]
            return [id(n), n.data]
        out = {'tree': walk(doc.topnode, 0)}
        for nm in names:
            r = doc.getStyleByName(nm); out['style ' + nm] = None if r is None else id(r)
        out['byType'] = sorted(id(e) for e in doc.getElementsByType(style.Style))
        return out
    for idx, op in enumerate(ops):
        before = snap()
        try:
            k = op[0]
            if k == 'mk': st[op[1]] = style.Style(name=op[2], family=u'paragraph')
            elif k == 'adde': secs[op[1]].addElement(st[op[2]])
            elif k == 'append': secs[op[1]].appendChild(st[op[2]])
            elif k == 'insb':
                ks = secs[op[1]].childNodes
                secs[op[1]].insertBefore(st[op[2]], ks[0] if ks else None)
            elif k == 'ctor': st[op[3]] = style.Style(name=op[2], family=u'text', parent=secs[op[1]])
            elif k == 'rm':
                if st[op[1]].parentNode is not None: st[op[1]].parentNode.removeChild(st[op[1]])
            elif k == 'rename': st[op[1]].setAttribute('name', op[2])
        except RecursionError:
            raise
        except KeyError:
            continue                      # a style that a refused 'ctor' never produced
        except Exception as e:
            after = snap()
            d = first_difference(before, after)
            if d is not None:
                return idx, '%s raised %s: %s -- but %r of the document changed' % (op, type(e).__name__, e, d)
    return None


META_NAMES = [u'Gray 50%', u'100%', u'a%sb', u'%(x)s', u'%d%%', u'%', u'{}', u'{0}', u'{x', u'a\\b', u'a\\', u'%s %s %s']


def hook_histories(chk, n):
    r = chk.rng
    fixed = [
        [['mk', 0, u'A'], ['mk', 1, u'A'], ['adde', 0, 0], ['adde', 0, 1]],
        [['mk', 0, u'A'], ['mk', 1, u'A'], ['append', 0, 0], ['append', 1, 1]],
        [['mk', 0, u'A'], ['mk', 1, u'A'], ['adde', 1, 0], ['insb', 1, 1]],
        [['mk', 0, u'A'], ['adde', 0, 0], ['ctor', 1, u'A', 1]],
        [['mk', 0, u'A'], ['mk', 1, u'B'], ['adde', 0, 0], ['adde', 1, 1], ['rename', 1, u'A'], ['rm', 1], ['adde', 0, 1]],
        [['mk', 0, u'MA'], ['mk', 1, u'A'], ['mk', 2, u'A'], ['adde', 0, 0], ['adde', 0, 1], ['adde', 1, 2]],
    ]
    hist = list(fixed)
    # names that are formatting directives to whatever builds a message / a key out of them (%-formatting, str.format, escapes):
    # every clash scenario x every entry point, once per name
    for nm in META_NAMES:
        hist.append([['mk', 0, nm], ['mk', 1, nm], ['adde', 0, 0], ['adde', 1, 1]])
        hist.append([['mk', 0, nm], ['mk', 1, nm], ['append', 1, 0], ['append', 0, 1]])
        hist.append([['mk', 0, nm], ['mk', 1, nm], ['adde', 1, 0], ['insb', 1, 1]])
        hist.append([['mk', 0, nm], ['adde', 0, 0], ['ctor', 1, nm, 1]])
        hist.append([['mk', 0, nm], ['mk', 1, u'B'], ['adde', 0, 0], ['adde', 1, 1], ['rename', 1, nm], ['rm', 1], ['adde', 0, 1]])
        hist.append([['mk', 0, u'M' + nm], ['mk', 1, nm], ['mk', 2, nm], ['adde', 0, 0], ['adde', 0, 1], ['adde', 1, 2]])
    for j in range(n):
        if j % 2 == 0:
            pool = [u'A', u'A', u'B', u'MA']; pool2 = [u'A', u'B']
        else:
            a = r.choice(META_NAMES); b = r.choice(META_NAMES)
            pool = [a, a, b, u'M' + a]; pool2 = [a, b]
        ops = [['mk', i, r.choice(pool)] for i in range(4)]
        nxt = 4
        for _ in range(r.randint(3, 12)):
            k = r.choice(['adde', 'append', 'insb', 'ctor', 'rm', 'rename'])
            if k in ('adde', 'append', 'insb'): ops.append([k, r.randint(0, 1), r.randint(0, 3)])
            elif k == 'ctor': ops.append(['ctor', r.randint(0, 1), r.choice(pool2), nxt]); nxt += 1
            elif k == 'rm': ops.append(['rm', r.randint(0, 3)])
            else: ops.append(['rename', r.randint(0, 3), r.choice(pool2)])
        hist.append(ops)
    for ops in hist:
        res = hook_history(ops)
        chk.case(('hooks', json.dumps(ops)), nontrivial=True); chk.count('hook_history')
        if res:
            idx, detail = res
            cur = ops[:idx + 1]
            changed = True
            while changed:
                changed = False
                for i in range(len(cur) - 2, -1, -1):
                    cand = cur[:i] + cur[i + 1:]
                    r2 = hook_history(cand)
                    if r2:
                        cur = cand[:r2[0] + 1]; changed = True; break
            chk.fail('changed-by-refused:document-hook', {'hooks': cur}, (hook_history(cur) or res)[1])


def wrapper_factories(chk):
    facs = all_factories()
    if chk.tier != 'thorough':
        rest = [x for x in facs if not x[3]]
        chk.rng.shuffle(rest)
        facs = [x for x in facs if x[3]] + rest[:120]
    labels = [l for l, _ in variants([], None)]
    plain_labels = [l for l in labels if 'stylename' not in l and 'classnames' not in l]
    for mod, name, f, wrapped in facs:
        for label in (labels if wrapped else plain_labels):
            chk.count('factory_call'); chk.count('factory_call_wrapper' if wrapped else 'factory_call_plain')
            detail = wrapper_call(mod, name, label)
            chk.case(('factory', mod, name, label), nontrivial=True)
            if detail:
                chk.fail('changed-by-refused:factory+parent', {'wrapper': [mod, name, label]}, detail)


def run(chk, replay=None):
    chk.rule = ('histories of <= 14 calls on 6 elements + 2 text nodes (attached to a document or free-standing) in which '
                '~40 % of the calls are designed to fail: every refusal kind (missing required attribute, unknown attribute, '
                'invalid value, illegal text/cdata, illegal child, not-a-child reference, childless parent) x every entry point '
                '(factory with and without parent=, addElement, addText, addCDATA, setAttribute, setAttrNS, removeAttribute, '
                'insertBefore, removeChild, appendChild); non-trivial = history with at least one raising call')
    if replay is not None and 'hooks' in replay['input']:
        res = hook_history(replay['input']['hooks'])
        print('replay: %s -> %s' % (replay['input']['hooks'], res))
        return 1 if res else 0
    if replay is not None and 'wrapper' in replay['input']:
        detail = wrapper_call(*replay['input']['wrapper'])
        print('replay: %s -> %s' % (replay['input']['wrapper'], detail))
        return 1 if detail else 0
    if replay is not None:
        inp = replay['input']
        h = replay_ops(inp['attached'], inp['ops'])
        print('replay: attached=%s ops=%s -> %s' % (inp['attached'], json.dumps(inp['ops']), h.failed))
        return 1 if h.failed else 0
    chk.prove(drivers=['drv_dom'])
    drv = chk.driver('drv_dom')
    thorough = chk.tier == 'thorough'
    rng = chk.rng
    nhist = 5000 if thorough else 600
    for s in range(nhist):
        attached = (s % 2 == 0)
        h = History(chk, attached, rng)
        for op in h.g.prologue():
            h.do(op, bracket=False)
        n = rng.randint(3, 14)
        surgery = (s % 4 in (1, 2))
        for step_no in range(n):
            if h.failed:
                break
            if surgery and step_no >= 2 and rng.random() < 0.25:
                op = h.g.ghost_op()
                if op is not None:
                    h.do(op, bracket=False)
                    chk.count('surgery_' + op[1])
                    continue
            if rng.random() < (0.55 if h.g.ghosts else 0.4):
                cands = h.g.bad_ops()
                if cands:
                    label, op = rng.choice(cands)
                    ans = h.do(op, label)
                    chk.count('designed_to_fail')
                    chk.count(('refused ' if ans != 'ok' else 'NOT-refused ') + label)
                    continue
            op = h.g.good_op()
            if op is None:
                continue
            ans = h.do(op)
            chk.count('designed_to_pass'); chk.count('call_' + op[0])
            if ans != 'ok':
                chk.count('unplanned_refusal_' + op[0])
        h.correspond(drv)
        body = [o for o in h.ops if o[0] != 'new']
        chk.case(json.dumps([attached, h.ops]), nontrivial=h.raised > 0,
                 sample={'attached': attached, 'ops': body[:5], 'raised': h.raised} if s < 4 else None)
        chk.count('history_attached' if attached else 'history_free'); chk.count('raising_calls', h.raised)
        if h.g.ghosts: chk.count('history_with_pointer_surgery')
        if h.failed:
            report(chk, h)
    # ---- every factory function with parent=, all calling conventions
    wrapper_factories(chk)
    hook_histories(chk, 600 if thorough else 120)
    # ---- systematic: every designed-to-fail call in every state of short histories
    depth = 2 if thorough else 1
    nstates = 0
    for attached in (True, False):
        seen = set()
        frontier = [[]]
        for d in range(depth + 1):
            nxt = []
            for path in frontier:
                base = History(chk, attached, rng)
                pro = base.g.prologue()
                for op in pro + path:
                    base.do(op, bracket=False)
                key = base.w.snapshot()
                if key in seen:
                    continue
                seen.add(key); nstates += 1
                cands = base.g.bad_ops(pick_all=True)
                for label, op in cands:
                    h = History(chk, attached, rng)
                    h.g.next_id = base.g.next_id + 50
                    h.g.style_names = set(base.g.style_names)
                    h.g.fname = dict(base.g.fname)
                    for o in pro + path:
                        h.do(o, bracket=False)
                    if op[0] == 'ctor':
                        h.g.fname[op[1]] = op[2]
                    ans = h.do(op, label)
                    chk.count('systematic ' + label + (' refused' if ans != 'ok' else ' NOT-refused'))
                    chk.case(json.dumps([attached, path, op]), nontrivial=ans != 'ok')
                    h.correspond(drv)
                    if h.failed:
                        report(chk, h)
                if d < depth:
                    E = [i for i in base.g.elems() if i not in base.w.roots][:3]
                    P = base.g.elems()[:3]
                    T = base.g.texts()[:1]
                    for p in P:
                        for c in E + T:
                            if base.g.movable(p, c):
                                nxt.append(path + [['append', p, c]])
                                ks = base.g.kids(p)
                                if ks and ks[0] != c:
                                    nxt.append(path + [['insb', p, c, ks[0]]])
                        for c in base.g.kids(p):
                            if c != 'X' and c not in base.w.roots:
                                nxt.append(path + [['rm', p, c]])
            frontier = nxt
    # ---- systematic, with pointer surgery: two parents with children, then every kind of surgery on every eligible node, then
    # every designed-to-fail call (incl. the stale-reference ones) in that state
    nsurg = 0
    for attached in (True, False):
        base = History(chk, attached, rng)
        pro = base.g.prologue()
        for op in pro:
            base.do(op, bracket=False)
        E = [i for i in base.g.elems() if i not in base.w.roots]
        byf = lambda f: [i for i in E if base.g.fname.get(i) == f]
        sec, ps, span, hd, lst = byf('Section')[0], byf('P'), byf('Span')[0], byf('H')[0], byf('List')[0]
        T = base.g.texts()
        top = sorted(base.w.roots)[0] if attached else None
        build = ([['append', top, sec]] if attached else []) + [
            ['append', sec, ps[0]], ['append', sec, hd], ['append', ps[0], span], ['append', ps[0], T[0]], ['append', span, T[1]]]
        for op in build:
            base.do(op, bracket=False)
        gops = base.g.ghost_ops()
        if not thorough:
            sp = [x for x in gops if x[0] == 'setparent']
            rng.shuffle(sp)
            gops = [x for x in gops if x[0] != 'setparent'] + sp[:8]
        for kind, gop in gops:
            st8 = History(chk, attached, rng)
            st8.g.next_id = base.g.next_id; st8.g.fname = dict(base.g.fname)
            for o in pro + build:
                st8.do(o, bracket=False)
            gop = st8.g.claim(list(gop))
            st8.do(gop, bracket=False)
            nsurg += 1
            for label, op in st8.g.bad_ops(pick_all=True):
                if 'stale' not in label and not (thorough and any(x in label for x in ('notachild', 'textparent', 'addElement'))):
                    continue
                h = History(chk, attached, rng)
                h.g.next_id = st8.g.next_id + 50; h.g.fname = dict(st8.g.fname); h.g.ghosts = True
                for o in pro + build + [gop]:
                    h.do(o, bracket=False)
                ans = h.do(op, label)
                chk.count('surgery-systematic ' + label + (' refused' if ans != 'ok' else ' NOT-refused'))
                chk.case(json.dumps([attached, 'surgery', gop, op]), nontrivial=ans != 'ok')
                h.correspond(drv)
                if h.failed:
                    report(chk, h)
    chk.notes.append('systematic part with pointer surgery: %d states' % nsurg)
    chk.notes.append('systematic part: %d distinct states (histories <= %d moves), every designed-to-fail call in each' % (nstates, depth))
    return chk.finish()

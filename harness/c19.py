# -*- coding: utf-8 -*-
"""C19 - updating user fields changes those fields and nothing else.

translate:      harness/translate_userfield.py -> lean/OdfModel/Generated/ValueTypes.lean
                (value-type -> attribute tables of update and of listing, measured on the code; converter classes)
proof:          lean/OdfModel/Props/C19.lean about lean/OdfModel/UserField.lean
                (upd_table_is_spec, update_sets, expectedView_verbatim, update_frame, updateDoc_frame,
                unknown_names_ignored, update_idempotent, list_readonly, ...)
                lean/OdfModel/Props/C19Pkg.lean about UserField.lean x Pkg.lean: the tool at package level
                (update_members_frame, update_manifest_same, update_content_member, list_readonly_pkg, ...)
correspondence: the same document (items of content.xml + styles.xml in document order: declarations with their
                ordered attribute lists, every other element as an interned payload) and the same dictionary through
                UserFields.update / list_fields_and_values and through drv_userfield; plus lexical cases for the boolean
                converter (TRUE, 1, no, maybe -> ValueError, nothing written)
oracle:         on hand-written packages (0-8 declarations of all seven value types, unknown / missing types, stale
                attributes, declarations in a page header; paragraphs, styles, a picture, a thumbnail, an extra member):
                * list_fields_and_values(source) = what an independent expat reading + the ODF table says
                * list_fields_and_values(update(source)) = new value for named fields, old one for the others
                * update(source) against a plain load+save of the source, member by member: same member list, binary
                  members byte-identical (and identical to the source's), every XML member infoset-equal except the
                  value attribute of the named declarations
                * every declaration of the output has exactly the source's attributes except that one
                * listing never changes the source bytes, writes nothing to the destination or to stdout
                * histories (2-4 list / get / update calls on ONE UserFields object, or two objects on one source; destination a
                  fresh buffer, or the source path / buffer itself): every call's result depends only on the source as it is at
                  that moment and on its own arguments (independent reference + the same call on a fresh object)
                * typed values: update() handed Python objects (floats needing up to 17 significant digits, very large / small
                  floats, ints beyond 2**53, Decimal, bool, instances of a str subclass): what listing the output returns
                  stands for the value given (read back with the value's own constructor: exact) and is written the way Python
                  writes that value (str(value); a bool in a boolean field: true / false); the model is driven with that string
"""
import io, os, sys, hashlib, json, tempfile, shutil, contextlib, copy, math
from common import enc_str, dec_str, InfraError, REPO
import ufgen
from ufgen import OFFICENS, TEXTNS, SEVEN, spec_attr

ATTR_PREFIXED = {u'value': u'office:value', u'date-value': u'office:date-value', u'time-value': u'office:time-value',
                 u'boolean-value': u'office:boolean-value', u'string-value': u'office:string-value'}
KEYS = {(TEXTNS, u'name'): 0, (OFFICENS, u'value-type'): 1, (OFFICENS, u'value'): 2, (OFFICENS, u'date-value'): 3,
        (OFFICENS, u'time-value'): 4, (OFFICENS, u'boolean-value'): 5, (OFFICENS, u'string-value'): 6,
        (OFFICENS, u'currency'): 7, (TEXTNS, u'formula'): 8}

NAME_POOL = [u'a', u'b', u'c', u'field one', u'x<&>"\'y', u'né中', u'Z9', u'd\U0001F600', u'e', u'f']
# names with the boundary characters of the writer's character filter, TAB / LF / CR and noncharacters
EDGE_NAMES = [u'n\x85l', u'del\x7e~', u't\tab', u'l\nf', u'c\rr', u'nb\xa0sp', u'\ufdcf\ufdd0', u'\ufdef\ufdf0', u'\ud7ff\ue000',
              u'\ufffdr', u'\U0001fffdq', u'c1\x84\x86', u'\x7f\x9f']
# every boundary of the character classes an XML writer may treat specially.  What is expected of them (see `lenient`):
#   * not an XML 1.0 Char (U+FFFE, C0 controls ...): cannot be written; U+FFFD is expected
#   * "discouraged" (U+007F-0084, U+0086-009F, U+nFFFE/F of planes 1-16): odfpy writes U+FFFD although XML could hold
#     them - property C02's known finding, not judged here: either form is accepted
#   * everything else - U+0085 NEL, U+007E, U+00A0, U+FDD0..FDEF, U+D7FF, U+E000, U+FFFD, U+1FFFD, TAB, LF, CR -
#     must come back exactly
EDGE_CHARS = [u'\x85', u'\x84', u'\x86', u'\x7e', u'\x7f', u'\x9f', u'\xa0', u'\ufdcf', u'\ufdd0', u'\ufdef', u'\ufdf0',
              u'\ufffd', u'\ufffe', u'\ud7ff', u'\ue000', u'\U0001fffd', u'\U0001fffe', u'\U0010fffd', u'\U0010ffff',
              u'\t', u'\n', u'\r', u'\x01', u'\x1f', u'\u2028']


def is_xml_char(o):
    return o in (0x9, 0xA, 0xD) or 0x20 <= o <= 0xD7FF or 0xE000 <= o <= 0xFFFD or 0x10000 <= o <= 0x10FFFF


def is_discouraged(o):
    return 0x7F <= o <= 0x84 or 0x86 <= o <= 0x9F or (o >= 0x10000 and (o & 0xFFFF) >= 0xFFFE)


def lenient(x):
    """normal form for comparing what was asked for with what an XML reading of the output gives: characters XML
    cannot hold and the discouraged ones (C02's finding) count as U+FFFD; every other character counts as itself"""
    if isinstance(x, str):
        return u''.join(u'\ufffd' if (not is_xml_char(ord(c)) or is_discouraged(ord(c))) else c for c in x)
    if isinstance(x, (list, tuple)):
        return type(x)(lenient(y) for y in x)
    if isinstance(x, dict):
        return dict((lenient(k), lenient(v)) for k, v in x.items())
    return x


def source_safe(sv):
    """a string that may stand in the hand-written SOURCE: XML Chars only"""
    return u''.join(c for c in sv if is_xml_char(ord(c)))
STR_ALPHA = [u'a', u'b', u' ', u'  ', u'<', u'&', u'>', u'"', u"'", u'\t', u'\n', u'\r', u'é', u'中', u'\U0001F600', u'0',
             u'&amp;', u']]>', u' ', u' ']
INITIAL = {u'string': [u'old', u'', u'o<l>d'], u'float': [u'1.5', u'0'], u'percentage': [u'0.25'], u'currency': [u'9.99'],
           u'date': [u'2001-01-01', u'2001-01-01T10:00:00'], u'time': [u'PT1H2M3S'], u'boolean': [u'true', u'false']}
NEW = {u'float': [u'3.25', u'-0.5', u'1e3', u'42', u'0'], u'percentage': [u'0.5', u'1', u'12.75'],
       u'currency': [u'100', u'19.99', u'-3'], u'date': [u'2024-02-29', u'1999-12-31T23:59:59', u'2024-02-29T00:00:00.5'],
       u'time': [u'PT12H00M00S', u'PT0S', u'PT1H30M'], u'boolean': [u'true', u'false']}


# ---------------------------------------------------------------------------------------------------------------
# typed values: update() is handed Python objects, not only strings.  In a case (and in a replay file) such a value
# is {'py': kind, 'lit': literal}: float -> float.hex() (exact, independent of repr), int / decimal -> decimal
# literal, bool -> 'True' / 'False', strsub -> the text of an instance of a str subclass
# ---------------------------------------------------------------------------------------------------------------
class FieldText(str):
    """a str subclass as applications have them (a marked / translated string); its text is the str itself"""
    origin = 'c19'


NUMERIC_TYPES = (u'float', u'percentage', u'currency')
TEXT_TYPES = (u'string', u'zzz', None)
# floats whose shortest exact lexical form needs up to 17 significant digits, very large / small ones, the borders of the
# positional / exponent notations, integers beyond 2**53 as floats; ints beyond 2**53 and 2**64; Decimals with
# trailing zeros, exponents, more digits than a double holds
FIXED_FLOATS = [0.1 + 0.2, 1727654321.123, 98765432109.87, 1.0 / 3, 2.0 / 3, 9007199254740994.0, 1.7976931348623157e308,
                5e-324, 2.2250738585072014e-308, 1e22, 1e23, 123456789012345680.0, -0.0, 1e16, 9999999999999998.0, 0.1,
                1e-05, 2.5, 1e-07, 0.0001, 123456.789012345, -1234567890.1234567, 4.35, 100.0, 1e100, 6.02214076e23,
                3.141592653589793, 2.718281828459045e-10]
FIXED_INTS = [0, 7, -3, 2 ** 53 + 1, 10 ** 30, -(2 ** 64) - 1, 123456789012345678, 99999999999999999999]
FIXED_DECIMALS = [u'0.10', u'1E+3', u'123456789.123456789123456789', u'-0.000', u'19.99', u'1.0000000000000000000001', u'7']


def enc_value(v):
    from decimal import Decimal
    if isinstance(v, bool):
        return {'py': 'bool', 'lit': str(v)}
    if isinstance(v, float):
        return {'py': 'float', 'lit': v.hex()}
    if isinstance(v, int):
        return {'py': 'int', 'lit': '%d' % v}
    if isinstance(v, Decimal):
        return {'py': 'decimal', 'lit': str(v)}
    if type(v) is not str:
        return {'py': 'strsub', 'lit': str.__str__(v)}
    return v


def dec_value(v):
    """what update() is handed"""
    from decimal import Decimal
    if not isinstance(v, dict):
        return v
    k, lit = v['py'], v['lit']
    if k == 'float':
        return float.fromhex(lit)
    if k == 'int':
        return int(lit)
    if k == 'bool':
        return lit == 'True'
    if k == 'decimal':
        return Decimal(lit)
    if k == 'strsub':
        return FieldText(lit)
    raise InfraError('unknown typed value %r' % (v,))


def kind_of(v):
    return v['py'] if isinstance(v, dict) else 'str'


def lexical_form(value, types):
    """the new value as listing must return it (the property: "listing the fields of the output returns the new values"):
    the value given, in the lexical form Python gives it - str(value); a bool given to a boolean field in the lexical
    form of that value type (true / false)"""
    if isinstance(value, bool) and types and all(t == u'boolean' for t in types):
        return u'true' if value else u'false'
    if isinstance(value, str):
        return str.__str__(value)
    return str(value)


def stands_for(listed, value):
    """does the listed string stand for the value that was given?  (read back with the constructor of the value's own
    type: exact for float - a double survives its 17 significant digits -, int and Decimal)"""
    from decimal import Decimal
    try:
        if isinstance(value, bool):
            return listed in ((u'true', u'True') if value else (u'false', u'False'))
        if isinstance(value, float):
            back = float(listed)
            if value != value:
                return back != back
            return back == value and math.copysign(1.0, back) == math.copysign(1.0, value)
        if isinstance(value, int):
            return int(listed) == value
        if isinstance(value, Decimal):
            return Decimal(listed).as_tuple() == value.as_tuple()
    except Exception:      # noqa
        return False
    # a str subclass: a string like any other - what an XML reading of the output gives for it is its `lenient` form (characters
    # XML cannot hold, and the discouraged ones of KF-C02-1, arrive as U+FFFD: the same tolerance every other string comparison
    # of this check has; without it a thorough run with seed 23 reported update({'a': S('\x7fa ')}) as a violation: false alarm)
    return listed == lenient(str.__str__(value))


def rand_float(rng):
    import struct
    r = rng.random()
    if r < 0.3:
        return rng.random() * 10 ** rng.randint(-12, 20) * rng.choice([1, 1, -1])
    if r < 0.5:
        return rng.randint(10 ** 9, 10 ** 12) / rng.choice([100.0, 1000.0, 7.0])          # amounts with cents, time stamps
    if r < 0.65:
        return rng.choice([0.1, 0.2, 0.7, 1.1, 4.35, 0.57]) * rng.choice([3, 7, 100, 0.1])  # results of float arithmetic
    if r < 0.8:
        while True:
            x = struct.unpack('>d', struct.pack('>Q', rng.getrandbits(64)))[0]               # any finite double
            if x == x and x not in (float('inf'), float('-inf')):
                return x
    if r < 0.9:
        return float(rng.randint(2 ** 53, 2 ** 70))
    return rng.choice(FIXED_FLOATS)


def rand_typed(rng, ts):
    """a typed value for a field whose declarations have the value types ts, or None if none is sensible"""
    from decimal import Decimal
    if all(t == u'boolean' for t in ts):
        return rng.choice([True, False])
    if all(t in NUMERIC_TYPES or t in TEXT_TYPES for t in ts):
        r = rng.random()
        if r < 0.5:
            return rand_float(rng)
        if r < 0.7:
            return rng.choice(FIXED_INTS + [rng.randint(2 ** 53, 2 ** 90), -rng.randint(0, 10 ** 6), rng.getrandbits(64)])
        if r < 0.85:
            return Decimal(rng.choice(FIXED_DECIMALS + [u'%d.%02d' % (rng.randint(0, 10 ** 12), rng.randint(0, 99))]))
        if all(t in TEXT_TYPES for t in ts):
            return rng.choice([True, False]) if r < 0.92 else FieldText(rand_string(rng))
        return FieldText(rng.choice(NEW[ts[0]] if ts[0] in NEW else [u'12.5']))
    if len(set(ts)) == 1 and ts[0] in NEW:
        return FieldText(rng.choice(NEW[ts[0]]))        # date / time: the text of a str subclass
    return None


def rand_string(rng):
    r = rng.random()
    if r < 0.2:
        return u''
    n = rng.choice([1, 1, 2, 3, 5, 9])
    return u''.join(rng.choice(EDGE_CHARS) if rng.random() < 0.25 else rng.choice(STR_ALPHA) for _ in range(n))


def gen_case(rng):
    n = rng.choice([0, 0, 1, 1, 2, 3, 4, 5, 6, 7, 8])
    decls = []
    types = list(SEVEN)
    rng.shuffle(types)
    for i in range(n):
        t = types[i] if i < 7 else rng.choice(SEVEN)
        r = rng.random()
        if r < 0.06:
            t = u'zzz'
        elif r < 0.10:
            t = None
        name = rng.choice(NAME_POOL) if rng.random() < 0.25 else NAME_POOL[i % len(NAME_POOL)] + (u'' if i < len(NAME_POOL) else str(i))
        if rng.random() < 0.2:
            name = rng.choice(EDGE_NAMES)
        a = [(u'text:name', name)]
        if t is not None:
            a.append((u'office:value-type', t))
        vattr = ATTR_PREFIXED[spec_attr(t)[1]]
        if rng.random() < 0.9:
            init = rng.choice(INITIAL.get(t, [u'7']))
            if t in (u'string', u'zzz', None) and rng.random() < 0.4:
                init = source_safe(rand_string(rng))
            a.append((vattr, init))
        if t == u'currency':
            a.append((u'office:currency', rng.choice([u'EUR', u'E\x85R', u'\xa0\x7e', u'a\tb\nc\rd', u'\ufdd0\ud7ff\ue000'])))
        if rng.random() < 0.15 and vattr != u'office:value':
            a.insert(rng.randint(1, len(a)), (u'office:value', u'99'))          # stale attribute of another type
        if rng.random() < 0.08 and vattr != u'office:string-value':
            a.append((u'office:string-value', u'stale'))
        decls.append(a)
    header = []
    if rng.random() < 0.15:
        for j in range(rng.choice([1, 2])):
            t = rng.choice(SEVEN)
            header.append([(u'text:name', rng.choice([u'h%d' % j, u'a'])), (u'office:value-type', t),
                           (ATTR_PREFIXED[spec_attr(t)[1]], rng.choice(INITIAL[t]))])
    names = [dict(a)[u'text:name'] for a in decls + header]
    paras = []
    for i in range(rng.choice([1, 2, 3, 4])):
        paras.append([source_safe(rand_string(rng)) or u'p', rng.choice(names) if names and rng.random() < 0.5 else None])
    # ---- update dictionary
    data = {}
    by_name = {}
    for a in decls + header:
        d = dict(a)
        by_name.setdefault(d[u'text:name'], []).append(d.get(u'office:value-type'))
    mode = rng.choice(['subset', 'subset', 'subset', 'all', 'all', 'none', 'unknown-only'])
    for nm, ts in sorted(by_name.items()):
        if mode == 'all' or (mode == 'subset' and rng.random() < 0.5):
            if u'boolean' in ts:
                data[nm] = rng.choice(NEW[u'boolean'])
            else:
                t = ts[0]
                data[nm] = rand_string(rng) if t in (u'string', u'zzz', None) else rng.choice(NEW[t])
    # typed values: a quarter of the documents hand update() Python objects (float, int, Decimal, bool, a str subclass)
    if rng.random() < 0.25:
        for nm, ts in sorted(by_name.items()):
            if nm in data and rng.random() < 0.7:
                tv = rand_typed(rng, ts)
                if tv is not None:
                    data[nm] = enc_value(tv)
    if mode in ('unknown-only',) or rng.random() < 0.4:
        for k in range(rng.choice([1, 2])):
            data[rng.choice([u'nosuch', u'A', u'a ', u'', u'x<&>'])] = rand_string(rng)
    return {'decls': decls, 'header': header, 'paras': paras,
            'picture': rng.randint(0, 999) if rng.random() < 0.6 else None,
            'extra': rng.random() < 0.6, 'extra_name': rng.randint(0, 5), 'thumbnail': rng.random() < 0.3,
            'container': not (n == 0 and rng.random() < 0.5),
            'data': sorted(data.items())}


def build(case):
    raw, members = ufgen.make_package(
        [[tuple(x) for x in a] for a in case['decls']] if (case['decls'] or case.get('container', True)) else None,
        [tuple(p) for p in case['paras']], [[tuple(x) for x in a] for a in case['header']],
        case['picture'], (b'\x00\x01extra\xff' * 7) if case['extra'] else None, case['thumbnail'], case.get('extra_name', 0))
    return raw, members


# ---------------------------------------------------------------------------------------------------------------
# reference (independent of odf/userfield.py): expat + the ODF table of ufgen
# ---------------------------------------------------------------------------------------------------------------
def ref_rows(decl_dicts):
    out = []
    for d in decl_dicts:
        t = d.get((OFFICENS, u'value-type'))
        out.append((d.get((TEXTNS, u'name')), t, d.get(spec_attr(t))))
    return out


def ref_update_decl(d, data, filtered_names=False):
    d = dict(d)
    nm = d.get((TEXTNS, u'name'))
    if nm in data:
        d[spec_attr(d.get((OFFICENS, u'value-type')))] = data[nm]
    elif nm is not None and filtered_names:
        # the tree may come from a load+save, where the writer's filter has already turned discouraged characters of
        # the name into U+FFFD: match names in lenient form
        for k in data:
            if lenient(k) == nm and lenient(k) != k:
                d[spec_attr(d.get((OFFICENS, u'value-type')))] = data[k]
    return d


def ref_update_tree(tree, data, filtered_names=False):
    """copy of the tree with the named declarations' value attribute replaced"""
    if isinstance(tree, str):
        return tree
    attrs = ref_update_decl(tree[1], data, filtered_names) if tree[0] == ufgen.DECL_Q else tree[1]
    return [tree[0], attrs, [ref_update_tree(k, data, filtered_names) for k in tree[2]]]


XML_MEMBERS = (u'content.xml', u'styles.xml', u'meta.xml', u'settings.xml', u'META-INF/manifest.xml')


# ---------------------------------------------------------------------------------------------------------------
# items for the model
# ---------------------------------------------------------------------------------------------------------------
class Interner(object):
    def __init__(self):
        self.t = {}

    def id(self, key):
        if key not in self.t:
            self.t[key] = len(self.t) + 1
        return self.t[key]


def attr_key(q, extra):
    if q in KEYS:
        return KEYS[q]
    return 100 + extra.id(q)


def items_of(members, raw_attr_order, intern, akeys):
    """document-order items of content.xml then styles.xml; raw_attr_order: name -> list of ordered attribute lists of
    the declarations of that member (expat's ordered_attributes), to carry attribute ORDER to the model"""
    d = dict(members)
    items = []
    for name in (u'content.xml', u'styles.xml'):
        if name not in d:
            continue
        ordered = iter(raw_attr_order[name])
        for n in ufgen.walk(ufgen.parse_tree(d[name])):
            if n[0] == ufgen.DECL_Q:
                items.append(('F', [(attr_key(q, akeys), v) for q, v in next(ordered)]))
            else:
                key = (name, n[0], tuple(sorted(n[1].items())), tuple(k for k in n[2] if isinstance(k, str)))
                items.append(('O', intern.id(key)))
    return items


def ordered_decl_attrs(members):
    """per XML member: for every declaration its attributes in the order they are written"""
    import xml.parsers.expat
    out = {}
    d = dict(members)
    for name in (u'content.xml', u'styles.xml'):
        if name not in d:
            continue
        acc = []
        p = xml.parsers.expat.ParserCreate(namespace_separator=u' ')
        p.ordered_attributes = True

        def start(nm, attrs, acc=acc):
            if ufgen.split(nm) == ufgen.DECL_Q:
                acc.append([(ufgen.split(attrs[i]), attrs[i + 1]) for i in range(0, len(attrs), 2)])
        p.StartElementHandler = start
        p.Parse(d[name], True)
        out[name] = acc
    return out


def show_items(items):
    out = []
    for it in items:
        if it[0] == 'O':
            out.append('O %d' % it[1])
        else:
            out.append('F %d' % len(it[1]) + ''.join(' %d %s' % (k, enc_str(v)) for k, v in it[1]))
    return ' '.join(out)


def len_items(items):
    """items with every string in `lenient` form: the model has no character filter of the XML writer (that is
    properties C01 / C02), so model and implementation are compared modulo that filter's known effect"""
    return [it if it[0] == 'O' else ('F', [(k, lenient(v)) for k, v in it[1]]) for it in items]


def opt(w):
    return u'~' if w is None else enc_str(w)


def show_rows(rows):
    return ' '.join('%s %s %s' % (opt(a), opt(b), opt(c)) for a, b, c in rows)


# ---------------------------------------------------------------------------------------------------------------
def run_case(chk, drv, case, tmpdir=None, lexical=False):
    """one document x one dictionary through the real tool, the model and the oracle.  Returns list of failures
    [(signature, detail)] (already reported to chk unless chk is None)"""
    from odf.userfield import UserFields
    from odf.opendocument import load
    lexical_only = lexical
    fails = []

    def fail(sig, detail):
        fails.append((sig, detail))
        if chk is not None:
            chk.fail(sig, case, detail)
    # what update() is handed (typed values decoded) / the strings listing must return for them (`lexical_form`)
    typed = dict((k, dec_value(v)) for k, v in case['data'])
    types_of = {}
    for a in case['decls'] + case['header']:
        d = dict(tuple(x) for x in a)
        types_of.setdefault(d[u'text:name'], []).append(d.get(u'office:value-type'))
    data = dict((k, lexical_form(v, types_of.get(k))) for k, v in typed.items())
    src, src_members = build(case)
    h0 = hashlib.sha256(src).hexdigest()
    src_decls = ufgen.read_decls(list(src_members.items()))
    # ---------------- listing the source: value, and read-only
    sbuf = io.BytesIO(src)
    dbuf = io.BytesIO()
    cap = io.StringIO()
    # every exception that escapes the tool on a well-formed source with schema-valid declarations is a property failure
    raised = []

    def call(op, f):
        try:
            return f()
        except Exception as e:      # noqa
            raised.append(op)
            fail('tool-raises:%s:%s' % (type(e).__name__, op),
                 '%s raised %r on a well-formed source whose declarations are schema-valid' % (op, e))
            return None
    with contextlib.redirect_stdout(cap):
        call('loaddoc', lambda: UserFields(sbuf, dbuf).loaddoc())
        rows_src = call('list_fields_and_values', lambda: UserFields(sbuf, dbuf).list_fields_and_values())
        names_src = call('list_fields', lambda: UserFields(sbuf, dbuf).list_fields())
        first = rows_src[0][0] if rows_src and rows_src[0][0] is not None else u'nosuch'
        got1 = call('get', lambda: UserFields(sbuf, dbuf).get(first))
        got2 = call('get_type_and_value', lambda: UserFields(sbuf, dbuf).get_type_and_value(first))
        got3 = call('list_values', lambda: UserFields(sbuf, dbuf).list_values([first, u'nosuch']))
    if raised:
        # nothing can be listed: still try the update, so that its failure is on record too
        try:
            UserFields(io.BytesIO(src), io.BytesIO()).update(dict(typed))
        except Exception as e:      # noqa
            if not lexical_only:
                fail('tool-raises:%s:update' % type(e).__name__, 'update raised %r on a well-formed source whose declarations are schema-valid' % (e,))
        return fails
    if hashlib.sha256(sbuf.getvalue()).hexdigest() != h0:
        fail('source-modified', 'listing changed the bytes of the source')
    if dbuf.getvalue() != b'' or cap.getvalue() != u'':
        fail('listing-writes', 'listing / reading wrote %d bytes to the destination and %d characters to stdout' % (len(dbuf.getvalue()), len(cap.getvalue())))
    want_src = ref_rows(src_decls)
    if sorted(map(repr, rows_src)) != sorted(map(repr, want_src)):
        fail('listing-source', 'list_fields_and_values(source) = %r, the document says %r' % (rows_src, want_src))
    if sorted(map(repr, names_src)) != sorted(repr(r[0]) for r in want_src):
        fail('listing-source', 'list_fields(source) = %r' % (names_src,))
    same = [r for r in want_src if r[0] == first]
    if got1 != (same[0][2] if same else None) or got2 != ((same[0][1], same[0][2]) if same else None) or got3 != [r[2] for r in same]:
        fail('listing-source', 'get / get_type_and_value / list_values(%r) = %r / %r / %r, the document says %r' % (first, got1, got2, got3, same))
    if tmpdir is not None:
        # file-name form; destination = the source file itself: listing must not rewrite it
        p = os.path.join(tmpdir, 'src.odt')
        with open(p, 'wb') as f:
            f.write(src)
        st = os.stat(p)
        cap = io.TextIOWrapper(io.BytesIO(), encoding='latin-1', write_through=True)   # has .buffer like the real stdout
        with contextlib.redirect_stdout(cap):
            try:
                UserFields(p, p).list_fields_and_values()
                UserFields(p).get(first)
                err = None
            except Exception as e:      # noqa
                err = e
        cap.getvalue = lambda cap=cap: cap.buffer.getvalue().decode('latin-1')
        with open(p, 'rb') as f:
            now = f.read()
        if now != src or os.stat(p).st_mtime_ns != st.st_mtime_ns:
            fail('source-modified', 'listing through file names rewrote the source file')
        if err is not None or cap.getvalue() != u'':
            fail('listing-writes', 'listing through file names raised %r / wrote %d characters to stdout' % (err, len(cap.getvalue())))
    # ---------------- baseline: an ordinary load and save of the source
    abuf = io.BytesIO()
    try:
        load(io.BytesIO(src)).save(abuf)
    except Exception as e:      # noqa
        fail('tool-raises:%s:load+save' % type(e).__name__, 'an ordinary load and save of the source raised %r' % (e,))
        return fails
    A = ufgen.unzip(abuf.getvalue())
    # ---------------- update
    sbuf = io.BytesIO(src)
    out = io.BytesIO()
    exc = None
    try:
        UserFields(sbuf, out).update(dict(typed))
    except ValueError as e:
        exc = e
    except Exception as e:      # noqa
        fail('tool-raises:%s:update' % type(e).__name__, 'update raised %r' % (e,))
        return fails
    if hashlib.sha256(sbuf.getvalue()).hexdigest() != h0:
        fail('source-modified', 'update changed the bytes of the source')
    # ---------------- model
    if drv is not None:
        intern, akeys = Interner(), Interner()
        itemsA = len_items(items_of(A, ordered_decl_attrs(A), intern, akeys))
        ldata = dict((lenient(k), lenient(v)) for k, v in data.items())
        line = 'update %d %s %d %s' % (len(ldata), ' '.join('%s %s' % (enc_str(k), enc_str(v)) for k, v in sorted(ldata.items())),
                                       len(itemsA), show_items(itemsA))
        ans = drv.ask(' '.join(line.split()))
        ans_list = drv.ask('list %d %s' % (len(itemsA), show_items(itemsA)))
        chk.corr(2)
        impl_list = 'ok ' + show_rows(lenient(rows_src))
        if ans_list.strip() != impl_list.strip():
            chk.corr_diff(case, impl_list, ans_list, 'list_fields_and_values(source) as rows')
    if exc is not None:
        if drv is not None and not ans.startswith('err valueError'):
            chk.corr_diff(case, 'ValueError: %s' % exc, ans, 'update raised')
        if out.getvalue() != b'':
            fail('failed-update-writes', 'update raised %r but wrote %d bytes' % (exc, len(out.getvalue())))
        if not lexical_only:
            fail('tool-raises:%s:update' % type(exc).__name__, 'update raised %r on values valid for their types' % (exc,))
        return fails
    B = ufgen.unzip(out.getvalue())
    try:
        with contextlib.redirect_stdout(io.StringIO()):
            rows_out = UserFields(io.BytesIO(out.getvalue()), io.BytesIO()).list_fields_and_values()
    except Exception as e:      # noqa
        fail('tool-raises:%s:list_fields_and_values(output)' % type(e).__name__, 'listing the output of update raised %r' % (e,))
        return fails
    if drv is not None:
        itemsB = len_items(items_of(B, ordered_decl_attrs(B), intern, akeys))
        impl = 'ok ' + show_items(itemsB) + ' ; ' + show_rows(lenient(rows_out))
        if ' '.join(ans.split()) != ' '.join(impl.split()):
            chk.corr_diff(case, impl[:3000], ans[:3000], 'items of content.xml+styles.xml after update ; rows listed from the output')
    if lexical_only:
        return fails
    # ---------------- oracle 0: typed values - what is listed for a named field stands for the value given, in the
    # lexical form Python gives that value
    for k in sorted(typed):
        v = typed[k]
        if type(v) is str:
            continue
        kind = kind_of(enc_value(v))
        for n, t, listed in rows_out:
            if n != k:
                continue
            if listed is None or not stands_for(listed, v):
                fail('typed-value-changed:%s' % kind, 'update({%r: %r}) on a field of type %r: listing the output returns %r, which does not '
                     'stand for the value given' % (k, v, t, listed))
            elif lenient(listed) != lenient(data[k]):
                fail('typed-value-form:%s' % kind, 'update({%r: %r}) on a field of type %r: listing the output returns %r, the value given '
                     'is written %r' % (k, v, t, listed, data[k]))
    # ---------------- oracle 1: listing the output
    want_out = [(n, t, (data[n] if n in data else v)) for n, t, v in want_src]
    if sorted(map(repr, lenient(rows_out))) != sorted(map(repr, lenient(want_out))):
        bad = [(g, w) for g, w in zip(rows_out, want_out) if lenient(g) != lenient(w)][:3]
        fail('listing-after-update', 'list_fields_and_values(output) differs from the expectation (got, want): %r' % (bad,))
    # ---------------- oracle 2: the declarations themselves, against the SOURCE
    out_decls = ufgen.read_decls(B)
    want_decls = [ref_update_decl(d, data) for d in src_decls]
    rows_xml = ref_rows(out_decls)
    if sorted(map(repr, rows_out)) != sorted(map(repr, rows_xml)):
        fail('listing-after-update', 'list_fields_and_values(output) = %r, an independent XML reading of the output gives %r' % (rows_out, rows_xml))
    if lenient(out_decls) != lenient(want_decls):
        bad = [(g, w) for g, w in zip(out_decls, want_decls) if lenient(g) != lenient(w)][:2]
        fail('frame-fields', 'declarations of the output are not the source declarations with the named value attributes replaced: %r' % (bad,))
    # ---------------- oracle 3: frame, member by member, against a plain load+save
    if [n for n, _ in A] != [n for n, _ in B]:
        fail('frame-member-list', 'members after update %r, after load+save %r' % ([n for n, _ in B], [n for n, _ in A]))
    dA, dB = dict(A), dict(B)
    for name in dA:
        if name not in dB:
            continue
        if name in XML_MEMBERS:
            ta = lenient(ufgen.canon(ref_update_tree(ufgen.parse_tree(dA[name]), data, True)))
            tb = lenient(ufgen.canon(ufgen.parse_tree(dB[name])))
            if ta != tb:
                fail('frame-xml-' + name.replace('/', '-'), 'infoset of %s after update differs from load+save with the named value attributes replaced' % name)
        else:
            if dA[name] != dB[name]:
                fail('frame-binary-member', '%s differs from load+save' % name)
            if name in src_members and src_members[name] != dB[name]:
                fail('frame-binary-member', '%s differs from the source' % name)
    for name in src_members:
        if name not in dB:
            fail('frame-member-list', 'member %s of the source is missing after update' % name)
    return fails


# ---------------------------------------------------------------------------------------------------------------
# histories: several calls on ONE UserFields object (and two objects on one source)
# ---------------------------------------------------------------------------------------------------------------
def gen_history(rng, case):
    names = [dict(tuple(x) for x in a)[u'text:name'] for a in case['decls'] + case['header']]
    by_name = {}
    for a in case['decls'] + case['header']:
        d = dict(tuple(x) for x in a)
        by_name.setdefault(d[u'text:name'], []).append(d.get(u'office:value-type'))

    def some_data():
        data = {}
        for nm, ts in sorted(by_name.items()):
            if rng.random() < 0.5:
                if u'boolean' in ts:
                    data[nm] = rng.choice(NEW[u'boolean'])
                else:
                    data[nm] = rand_string(rng) if ts[0] in (u'string', u'zzz', None) else rng.choice(NEW[ts[0]])
        if rng.random() < 0.2:
            for nm, ts in sorted(by_name.items()):
                if nm in data and rng.random() < 0.6:
                    tv = rand_typed(rng, ts)
                    if tv is not None:
                        data[nm] = enc_value(tv)          # a Python object instead of a string
        if rng.random() < 0.2:
            data[u'nosuch'] = u'x'
        return sorted(data.items())
    ops = []
    for i in range(rng.choice([2, 3, 3, 4])):
        r = rng.random()
        who = rng.choice([0, 1])
        if r < 0.45 or i == 0:
            ops.append(['update', some_data(), who])
        elif r < 0.65:
            ops.append(['list', None, who])
        elif r < 0.85:
            ops.append(['get', rng.choice(names) if names else u'nosuch', who])
        else:
            ops.append(['names', None, who])
    return {'mode': rng.choice(['bytesio', 'bytesio', 'path', 'path-in-place', 'bytesio-in-place', 'two-objects']), 'ops': ops}


def members_equal(X, Y):
    """same member names in the same order, XML members infoset-equal, the others byte-equal"""
    if [n for n, _ in X] != [n for n, _ in Y]:
        return 'member lists differ: %r / %r' % ([n for n, _ in X], [n for n, _ in Y])
    for (n, a), (_, b) in zip(X, Y):
        if n in XML_MEMBERS:
            if ufgen.canon(ufgen.parse_tree(a)) != ufgen.canon(ufgen.parse_tree(b)):
                return 'infoset of %s differs' % n
        elif a != b:
            return 'bytes of %s differ' % n
    return None


def run_history(chk, drv, case, tmpdir):
    """every call must behave as if made on a fresh object: its result depends only on the source as it is when the
    call is made (bytes on disk / in the buffer) and on the call's own arguments"""
    from odf.userfield import UserFields
    fails = []

    def fail(sig, detail):
        fails.append((sig, detail))
        if chk is not None:
            chk.fail(sig, case, detail)
    hist = case['history']
    mode = hist['mode']
    types_of = {}
    for a in case['decls'] + case['header']:
        d = dict(tuple(x) for x in a)
        types_of.setdefault(d[u'text:name'], []).append(d.get(u'office:value-type'))
    src, _ = build(case)
    path = os.path.join(tmpdir, 'hist.odt')
    if mode.startswith('path'):
        with open(path, 'wb') as f:
            f.write(src)
        source = path
    else:
        source = io.BytesIO(src)

    def current():
        if mode.startswith('path'):
            with open(path, 'rb') as f:
                return f.read()
        return source.getvalue()
    in_place = mode.endswith('in-place')
    objs = [UserFields(source, source if in_place else io.BytesIO())]
    objs.append(UserFields(source, source if in_place else io.BytesIO()) if mode == 'two-objects' else objs[0])
    for step, (op, arg, who) in enumerate(hist['ops']):
        u = objs[who]
        now = current()
        now_members = ufgen.unzip(now)
        want_rows = ref_rows(ufgen.read_decls(now_members))
        where = 'call %d (%s) of the history in mode %s' % (step + 1, op, mode)
        cap = io.StringIO()
        try:
            with contextlib.redirect_stdout(cap):
                if op == 'list':
                    got = u.list_fields_and_values()
                    if sorted(map(repr, got)) != sorted(map(repr, want_rows)):
                        fail('history-read', '%s: list_fields_and_values() = %r, the source now says %r' % (where, got, want_rows))
                    if drv is not None:
                        intern, akeys = Interner(), Interner()
                        items = len_items(items_of(now_members, ordered_decl_attrs(now_members), intern, akeys))
                        ans = drv.ask('list %d %s' % (len(items), show_items(items)))
                        chk.corr()
                        if ans.strip() != ('ok ' + show_rows(lenient(got))).strip():
                            chk.corr_diff(case, 'ok ' + show_rows(lenient(got)), ans, where + ': rows')
                elif op == 'names':
                    got = u.list_fields()
                    if sorted(map(repr, got)) != sorted(repr(r[0]) for r in want_rows):
                        fail('history-read', '%s: list_fields() = %r, the source now says %r' % (where, got, [r[0] for r in want_rows]))
                elif op == 'get':
                    got = u.get(arg)
                    same = [r for r in want_rows if r[0] == arg]
                    if got != (same[0][2] if same else None):
                        fail('history-read', '%s: get(%r) = %r, the source now says %r' % (where, arg, got, same[:1]))
                else:
                    typed = dict((k, dec_value(v)) for k, v in arg)
                    data = dict((k, lexical_form(v, types_of.get(k))) for k, v in typed.items())
                    if not in_place:
                        u.dest_file = io.BytesIO()
                    u.update(dict(typed))
                    out = current() if in_place else u.dest_file.getvalue()
                    if not in_place and current() != now:
                        fail('source-modified', '%s changed the source' % where)
                    B = ufgen.unzip(out)
                    want_decls = [ref_update_decl(d, data) for d in ufgen.read_decls(now_members)]
                    if lenient(ufgen.read_decls(B)) != lenient(want_decls):
                        bad = [(g, w) for g, w in zip(ufgen.read_decls(B), want_decls) if lenient(g) != lenient(w)][:2]
                        fail('history-update', '%s: declarations of the output are not those of the source (as it was when the call '
                             'was made) with the named values replaced: (got, want) %r' % (where, bad))
                    fresh = io.BytesIO()
                    UserFields(io.BytesIO(now), fresh).update(dict(typed))
                    diff = members_equal(ufgen.unzip(fresh.getvalue()), B)
                    if diff:
                        fail('history-update', '%s: output differs from the same update made by a fresh object on the same bytes: %s' % (where, diff))
        except Exception as e:      # noqa
            fail('tool-raises:%s:%s' % (type(e).__name__, {'list': 'list_fields_and_values', 'names': 'list_fields'}.get(op, op)),
                 '%s raised %r' % (where, e))
            break
        if cap.getvalue():
            fail('listing-writes', '%s wrote to stdout' % where)
    return fails


LEXICAL_BOOL = [u'TRUE', u'False', u'1', u'0', u'yes', u'NO', u'maybe', u'', u' true', u'true', u'ı', u'FALSE\n']


def run(chk, replay=None):
    import translate_userfield
    import odf, odf.userfield
    for m in (odf, odf.userfield):
        if not os.path.realpath(m.__file__).startswith(os.path.realpath(REPO) + os.sep):
            raise InfraError('module %s was imported from %s, not from %s' % (m.__name__, m.__file__, REPO))
    N = 5000 if chk.tier == 'thorough' else 400
    chk.rule = ('%d seeded hand-written packages: 0-8 user-field declarations (every one of the seven value types in each document '
                'with >= 7 declarations; unknown / missing type, stale attributes, duplicate names, declarations in a page header) next '
                'to paragraphs, styles, a picture, a thumbnail and an extra member, x an update dictionary (subset / all / none / '
                'unknown names; values with markup, whitespace, non-ASCII, empty; typed values valid for the type; Python objects as '
                'values: floats needing up to 17 significant digits, very large / small, ints beyond 2**53, Decimal, bool, a str subclass); '
                'non-trivial = at least one declaration is named by the dictionary' % N)
    if replay is not None:
        case = replay['input']
        tmp = tempfile.mkdtemp(prefix='c19-')
        try:
            if 'history' in case:
                fails = run_history(None, None, case, tmp)
            else:
                fails = run_case(None, None, case, tmp, lexical=case.get('lexical', False))
        finally:
            shutil.rmtree(tmp, ignore_errors=True)
        print('replay: %d failures %s' % (len(fails), fails[:3]))
        return 1 if fails else 0
    # 1 translate
    try:
        m = translate_userfield.measure()
    except Exception as e:      # noqa
        # the tool cannot even read the probe document: the tables cannot be measured (the generated file of the last run
        # stays); the cases below will find the concrete input
        m = None
        chk.broken.append({'what': 'translator', 'detail': 'translate_userfield.measure() raised %r: the value-type tables '
                           'could not be measured on this tree' % (e,)})
    if m is not None:
        chk.write_generated('ValueTypes', translate_userfield.to_lean(m))
        chk.extra_cov['value_type_tables'] = {'update': {str(k): v for k, v in m['upd'].items()},
                                              'list': {str(k): v for k, v in m['list'].items()}, 'converters': m['conv']}
        for n in m['notes']:
            chk.notes.append(n)
    # 2 prove
    ok = chk.prove(modules=['OdfModel.Props.C19', 'OdfModel.Props.C19Xml', 'OdfModel.Props.C19Pkg'], drivers=['drv_userfield'])
    if not ok:
        chk.lake(['build', 'drv_userfield'])
    chk.assumptions.append('C19: the package level of update (Pkg.load, the loop, Pkg.save) is Props/C19Pkg.lean: every member but the root '
                           "document's own XML parts, and the manifest, are those of a plain load+save for every package and dictionary; the XML "
                           'loader and serialiser underneath are a parameter there (XmlLayer; properties C04/C05), and the oracle compares update(out) '
                           'with a plain load+save of the same source member by member on every generated package')
    drv = chk.driver('drv_userfield')
    tmp = tempfile.mkdtemp(prefix='c19-')
    try:
        # 3+4 generated cases; the first ones are fixed: every value type of the ODF table (and none / unknown) is there on
        # every run, alone and together, with the boundary characters of an XML writer's character filter in the values
        fixed = []
        alltypes = SEVEN + [None, u'zzz']
        def decl_of(t, i):
            a = [(u'text:name', u'f%d' % i)]
            if t is not None:
                a.append((u'office:value-type', t))
            a.append((ATTR_PREFIXED[spec_attr(t)[1]], INITIAL.get(t, [u'7'])[0]))
            if t == u'currency':
                a.append((u'office:currency', u'EUR'))
            return a
        base = {'header': [], 'paras': [[u'p', u'f0']], 'picture': 1, 'extra': True, 'thumbnail': False, 'container': True}
        for i, t in enumerate(alltypes):
            newv = NEW[t][0] if t in NEW else u'new'
            fixed.append(dict(base, decls=[decl_of(t, 0)], data=[(u'f0', newv)]))
        fixed.append(dict(base, decls=[decl_of(t, i) for i, t in enumerate(alltypes)],
                          data=[(u'f%d' % i, NEW[t][0] if t in NEW else u'n\x85l') for i, t in enumerate(alltypes)]))
        for ch in EDGE_CHARS:
            fixed.append(dict(base, decls=[decl_of(u'string', 0), decl_of(None, 1), [(u'text:name', u'k' + source_safe(ch)), (u'office:value-type', u'string'), (u'office:string-value', u'v' + source_safe(ch))]],
                              data=[(u'f0', u'a' + ch + u'b'), (u'f1', ch)]))
        # typed values, on every run: every float / int / Decimal of the fixed pools to a numeric, a string and a typeless
        # field (two rotations, so that each meets two different value types), bools to boolean and string fields, instances
        # of a str subclass to every type
        from decimal import Decimal
        pool = FIXED_FLOATS + FIXED_INTS + [Decimal(x) for x in FIXED_DECIMALS]
        slots = [u'float', u'string', u'percentage', None, u'currency']
        for rot in (0, 1):
            for j in range(0, len(pool), len(slots)):
                vals = pool[j:j + len(slots)]
                ts = [slots[(q + rot) % len(slots)] for q in range(len(vals))]
                fixed.append(dict(base, decls=[decl_of(t, q) for q, t in enumerate(ts)],
                                  data=[(u'f%d' % q, enc_value(v)) for q, v in enumerate(vals)]))
        fixed.append(dict(base, decls=[decl_of(u'boolean', 0), decl_of(u'boolean', 1), decl_of(u'string', 2), decl_of(None, 3)],
                          data=[(u'f0', enc_value(True)), (u'f1', enc_value(False)), (u'f2', enc_value(True)), (u'f3', enc_value(False))]))
        fixed.append(dict(base, decls=[decl_of(t, q) for q, t in enumerate(alltypes)],
                          data=[(u'f%d' % q, enc_value(FieldText(NEW[t][1] if t in NEW else u'n<&>\x85 l'))) for q, t in enumerate(alltypes)]))
        for i in range(N):
            case = fixed[i] if i < len(fixed) else gen_case(chk.rng)
            src_names = set(dict(a)[u'text:name'] for a in case['decls'] + case['header'])
            hit = [k for k, _ in case['data'] if k in src_names]
            types = [dict(a).get(u'office:value-type') for a in case['decls'] + case['header'] if dict(a)[u'text:name'] in hit]
            chk.case(json.dumps(case, sort_keys=True), nontrivial=bool(hit),
                     sample={'declarations': len(case['decls']), 'data': case['data'][:3]} if i % 40 == 0 else None)
            chk.count('decls=%d' % len(case['decls']))
            for t in types:
                chk.count('updated-type.' + str(t))
            for k, v in case['data']:
                if k in src_names and isinstance(v, dict):
                    chk.count('typed-value.' + v['py'])
            if any(v == u'' for k, v in case['data'] if k in src_names):
                chk.count('updated-with-empty-value')
            if case['header']:
                chk.count('header-decls')
            if len(hit) < len(case['data']):
                chk.count('dictionary-has-unknown-name')
            run_case(chk, drv, case, tmp if i % 10 == 0 else None)
        # histories on one object / two objects on one source
        for i in range(N // 2):
            case = gen_case(chk.rng)
            if not case['decls'] and chk.rng.random() < 0.7:
                continue
            case['history'] = gen_history(chk.rng, case)
            del case['data']
            chk.case(json.dumps(case, sort_keys=True), nontrivial=sum(1 for o in case['history']['ops'] if o[0] == 'update' and o[1]) >= 1,
                     sample={'history': [o[0] for o in case['history']['ops']], 'mode': case['history']['mode']} if i % 60 == 0 else None)
            chk.count('history.' + case['history']['mode'])
            chk.count('history.calls=%d' % len(case['history']['ops']))
            if any(o[0] == 'update' and any(isinstance(v, dict) for _, v in o[1]) for o in case['history']['ops']):
                chk.count('history.typed-values')
            run_history(chk, drv, case, tmp)
        # lexical cases: the boolean converter (correspondence only)
        for v in LEXICAL_BOOL:
            case = {'decls': [[(u'text:name', u'b'), (u'office:value-type', u'boolean'), (u'office:boolean-value', u'false')],
                              [(u'text:name', u's'), (u'office:value-type', u'string'), (u'office:string-value', u'x')]],
                    'header': [], 'paras': [[u'p', None]], 'picture': None, 'extra': False, 'thumbnail': False,
                    'data': [(u'b', v), (u's', v)], 'lexical': True}
            chk.count('lexical-boolean')
            run_case(chk, drv, case, None, lexical=True)
        # the tables, value type by value type (the model's tables against the independent ODF table)
        for t in SEVEN + [u'zzz', u'', None]:
            ans = drv.ask('attr %s' % opt(t))
            chk.corr()
            want = KEYS[spec_attr(t)]
            if ans.split() != ['ok', str(want), str(want)]:
                chk.corr_diff({'value-type': t}, 'ok %d %d' % (want, want), ans, 'attribute written / read for the value type (ODF table)')
    finally:
        shutil.rmtree(tmp, ignore_errors=True)
    return chk.finish()

# -*- coding: utf-8 -*-
"""C18 - generator of documents over the converters' supported vocabulary, the builder that turns such a
description into a real odfpy document, and the INDEPENDENT reading of a description (its visible text
runs in document order).  Nothing in this file looks at odf2xhtml / odf2moinmoin or at the Lean model.

A description is plain JSON data:

  doc    = {'kind': 'text'|'sheet'|'pres', 'meta': {...}, 'styles': [...], 'liststyles': [...], 'body': [block]}
  block  = ['p', style, [inline]] | ['h', level|None, style, [inline]] | ['list', style, [[block]], header [block]|None]
         | ['spb']   (text:soft-page-break)
         | ['table', name, style, [[colstyle, repeat]], [[rowstyle, [cell]]]] | ['section', name, [block]]
         | ['page', name, [inline(frame)]]                                    (presentations only)
  cell   = ['cell', {'rs','cs','style'}, [block]] | ['covered']
  inline = ['t', s] | ['span', style, [inline]] | ['a', href, [inline]] | ['s', c|None] | ['tab'] | ['br']
         | ['bm', name] | ['bms', name] | ['bme', name] | ['bmref', name, s]
         | ['note', class, citation, [block]] | ['frame', anchor, style, ['textbox', [block]] | ['image']]
         | ['shape', kind, anchor, style, [block]]     (draw:rect / ellipse / circle / line / custom-shape holding paragraphs;
                                                        kind 'g': a draw:g group holding a draw:rect with the paragraphs)

  block-level containers (the places where the schema allows text-content: office:text, text:section, table:table-cell,
  draw:text-box, text:note-body, text:index-body / text:index-title):
  block  = … | ['frame', anchor, style, content]   the same description as the inline frame, as a CHILD of the container
         | ['shape', kind, anchor, style, [block]]
         | ['index', kind, name, title [block]|None, [block]]   text:table-of-content, text:alphabetical-index, … with an
                                                   empty …-source, a text:index-body holding (text:index-title, then) the blocks
         | ['numpar', listid, level|None, block(p|h)]            text:numbered-paragraph
"""
import base64

NS = {
    'office': u"urn:oasis:names:tc:opendocument:xmlns:office:1.0",
    'text': u"urn:oasis:names:tc:opendocument:xmlns:text:1.0",
    'table': u"urn:oasis:names:tc:opendocument:xmlns:table:1.0",
    'draw': u"urn:oasis:names:tc:opendocument:xmlns:drawing:1.0",
    'style': u"urn:oasis:names:tc:opendocument:xmlns:style:1.0",
    'xlink': u"http://www.w3.org/1999/xlink",
    'svg': u"urn:oasis:names:tc:opendocument:xmlns:svg-compatible:1.0",
    'fo': u"urn:oasis:names:tc:opendocument:xmlns:xsl-fo-compatible:1.0",
    'presentation': u"urn:oasis:names:tc:opendocument:xmlns:presentation:1.0",
}

PNG = base64.b64decode(b'iVBORw0KGgoAAAANSUhEUgAAAAEAAAABCAYAAAAfFcSJAAAADUlEQVR42mP8z8BQDwAEhQGAhKmMIQAAAABJRU5ErkJggg==')

ADV = [u'<', u'&', u'>', u'"', u"'", u']]>', u'\r', u'\t', u'é', u'\U0001F600', u'<b>', u'&amp;', u'</p>', u'<!--',
       u'&#60;', u'<![CDATA[', u']]', u']]]>', u']]>]]>', u'</style>', u'"\'', u'&lt;', u'ß', u'中', u'<p>', u'/>', u'-->', u'\n', u' ']
PLAINW = [u'alpha', u'beta', u'gamma', u'delta', u'omega', u'Lorem', u'ipsum', u'dolor', u'sit', u'amet', u'x', u'Zed']
SPECIAL_P = [u'Heading_20_1', u'Heading_20_3', u'Preformatted_20_Text', u'Addressee', u'Title', u'Standard', u'Text_20_body']
SPECIAL_S = [u'Emphasis', u'Strong_20_Emphasis', u'Teletype', u'Citation']
HREFS = [u'', u'#', u'#anchor', u'#a<b', u'javascript:alert("1")', u'http://x/?a=1&b="2"', u"http://x/'q'|frame",
         u'http://example.org/', u'mailto:a@b', u'#q&r', u'../rel<path>', u'|', u'#|x', u' http://sp ', u'http://é/\U0001F600']
WS = [u' ', u'\t', u'\n', u'\r\n', u'\r', u'  ', u' \r ', u'\n  ', u'\n\n', u' \t', u'\n\t\n']
INDEX = {'toc': ('table-of-content', 'table-of-content-source'), 'alpha': ('alphabetical-index', 'alphabetical-index-source'),
         'illus': ('illustration-index', 'illustration-index-source'), 'tabidx': ('table-index', 'table-index-source'),
         'objidx': ('object-index', 'object-index-source'), 'user': ('user-index', 'user-index-source'),
         'bib': ('bibliography', 'bibliography-source')}
SHAPES = {'rect': 'rect', 'ellipse': 'ellipse', 'custom': 'custom-shape', 'circle': 'circle', 'line': 'line', 'g': 'g'}
SHAPES_UNLISTED = ('line', 'g')        # shapes with text that odf2moinmoin's CONTAINER_TAGS (af61005) does not list
SAFE = set(u'abcdefghijklmnopqrstuvwxyzABCDEFGHIJKLMNOPQRSTUVWXYZ0123456789_ .#:/-@')

# The style names every office suite ships with its default template (their DISPLAY names, as a user sees them in the
# style list - taken from the producers' templates, not from the converters), and the ways such a name is spelled in a
# text:style-name / style:name attribute: a blank is not allowed in an NCName, so ODF encodes it as _20_; producers and
# hand-written documents also write '.' where the encoding has '_' (the converters map '.' onto '_' because a '.' cannot
# stand in a CSS class name), leave the blank as it is, or drop / replace it.
DISPLAY_P = [u'Heading %d' % i for i in range(1, 11)] + [
    u'Heading', u'Text body', u'Preformatted Text', u'Addressee', u'Sender', u'Caption', u'List Heading', u'List Contents',
    u'Table Heading', u'Table Contents', u'Title', u'Subtitle', u'Quotations', u'Standard', u'First line indent', u'Horizontal Line']
DISPLAY_S = [u'Emphasis', u'Strong Emphasis', u'Citation', u'Variable', u'Definition', u'Teletype', u'Source Text', u'Example',
             u'User Entry', u'Internet link', u'Footnote Characters']
BLANKS = [u'_20_', u'.20.', u'.20_', u'_20.', u' ', u'_', u'.', u'']


def spellings(display, raw_blank=True):
    """every spelling of one display name: each way of writing the blank (the same way at every blank), and - a name
       without a blank has no such variants - the name with a '.' / '_' appended; in document order, without repeats"""
    out = []
    for b in BLANKS:
        if b == u' ' and not raw_blank:
            continue
        nm = display.replace(u' ', b)
        if nm not in out:
            out.append(nm)
    for tail in (u'.', u'_', u'.1'):
        out.append(display.replace(u' ', u'_20_') + tail)
    return out


class Gen(object):
    """seeded generator; every text run gets a distinct word so that order and completeness are sharp"""

    def __init__(self, rng, maxdepth=5):
        self.rng = rng
        self.maxdepth = maxdepth
        self.n = 0
        self.pstyles = []
        self.sstyles = []
        self.lstyles = []
        self.cellstyles = []
        self.feat = set()

    # ---------------------------------------------------------------- strings
    def advstr(self, maxn=3):
        r = self.rng
        return u''.join(r.choice(ADV) if r.random() < 0.7 else r.choice(PLAINW) for _ in range(r.randint(1, maxn)))

    def run(self):
        """one text run"""
        r = self.rng
        x = r.random()
        if x < 0.04:
            return u''
        if x < 0.08:
            return r.choice(WS)
        if x < 0.16:
            return self.advstr(4)
        self.n += 1
        w = u'k%dz' % self.n
        parts = [w]
        for _ in range(r.choice([0, 0, 1, 1, 2, 3])):
            parts.append(r.choice(ADV) if r.random() < 0.5 else r.choice(PLAINW))
        r.shuffle(parts)
        s = u''
        for p in parts:
            s += p + (u' ' if r.random() < 0.4 else u'')
        if r.random() < 0.15:
            s = u' ' + s
        return s

    def name(self, plain_pool=None, p_adv=0.45):
        r = self.rng
        if r.random() < p_adv:
            self.n += 1
            # no blank and no colon: odfpy's load() rewrites those in style:name (make_NCName) but not in the references
            nm = (r.choice([u'n%d' % self.n, u'']) + self.advstr(2) + r.choice([u'', u'.1', u'_b'])).replace(u' ', u'').replace(u':', u'') or u'e'
            return nm
        if plain_pool and r.random() < 0.5:
            return r.choice(plain_pool)
        self.n += 1
        return u'N%d%s' % (self.n, r.choice([u'', u'.x', u'_y']))

    def spelled(self, display, raw_blank=True):
        """a style name of the producers' default templates in one of its spellings (mixed: each blank its own way)"""
        r = self.rng
        self.feat.add('style-name-spelling')
        nm = r.choice(display)
        if r.random() < 0.7:
            return r.choice(spellings(nm, raw_blank))
        parts = nm.split(u' ')
        out = parts[0]
        for p in parts[1:]:
            out += r.choice([b for b in BLANKS if raw_blank or b != u' ']) + p
        return out

    # ---------------------------------------------------------------- styles
    def styles(self):
        r = self.rng
        out = []
        for fam, store, pool, k in (('paragraph', self.pstyles, SPECIAL_P, r.randint(1, 4)), ('text', self.sstyles, SPECIAL_S, r.randint(1, 3)),
                                    ('table-cell', self.cellstyles, None, r.randint(0, 2))):
            for _ in range(k):
                nm = self.name(pool)
                if pool is not None and r.random() < 0.2:
                    # declared under a spelling of a default-template name (no raw blank: see name())
                    nm = self.spelled(DISPLAY_P if fam == 'paragraph' else DISPLAY_S, raw_blank=False)
                if nm in store:
                    continue
                store.append(nm)
                parent = r.choice(store) if (r.random() < 0.25) else None
                out.append({'fam': fam, 'name': nm, 'auto': r.random() < 0.5, 'parent': parent,
                            'bold': r.random() < 0.3, 'italic': r.random() < 0.3,
                            'color': r.choice([None, None, None, u'#ff0000', u'#00ff00', u'</style><b>', u'a;b:c', u'&lt;', u'red]]>', u']]>]]>', u'x]]]>']),
                            'margin': r.choice([None, None, u'1cm', u'0cm'])})
        ls = []
        for _ in range(r.randint(0, 2)):
            nm = self.name(None, 0.35)
            if nm in self.lstyles:
                continue
            self.lstyles.append(nm)
            ls.append({'name': nm, 'auto': r.random() < 0.5, 'levels': [r.choice('bn') for _ in range(r.randint(1, 4))]})
        return out, ls

    def pstyle(self):
        r = self.rng
        x = r.random()
        if x < 0.35:
            return None
        if x < 0.8 and self.pstyles:
            return r.choice(self.pstyles)
        if x < 0.9:
            return r.choice(SPECIAL_P) if r.random() < 0.4 else self.spelled(DISPLAY_P)
        return self.name(None, 0.8)          # a style name that is not declared anywhere

    def sstyle(self):
        r = self.rng
        x = r.random()
        if x < 0.3:
            return None
        if x < 0.75 and self.sstyles:
            return r.choice(self.sstyles)
        if x < 0.88:
            return r.choice(SPECIAL_S) if r.random() < 0.4 else self.spelled(DISPLAY_S)
        return self.name(None, 0.8)

    # ---------------------------------------------------------------- inline
    def inlines(self, depth, innote=False, inlink=False, allow_frame=True):
        r = self.rng
        out = []
        for _ in range(r.choice([1, 1, 2, 3, 4, 6])):
            x = r.random()
            if x < 0.42:
                out.append(['t', self.run()])
            elif x < 0.52 and depth < self.maxdepth:
                out.append(['span', self.sstyle(), self.inlines(depth + 1, innote, inlink, allow_frame)]); self.feat.add('span')
            elif x < 0.60 and depth < self.maxdepth and not inlink:
                out.append(['a', r.choice(HREFS) if r.random() < 0.8 else self.advstr(3), self.inlines(depth + 1, innote, True, False)])
                self.feat.add('a')
            elif x < 0.68:
                out.append(['s', r.choice([None, 0, 1, 1, 2, 3, 7, 40])]); self.feat.add('s')
            elif x < 0.71:
                out.append(['tab']); self.feat.add('tab')
            elif x < 0.72:
                out.append(['spb']); self.feat.add('soft-page-break')
            elif x < 0.76:
                out.append(['br']); self.feat.add('br')
            elif x < 0.81:
                k = r.choice(['bm', 'bms', 'bme'])
                out.append([k, self.name(None, 0.5)]); self.feat.add('bookmark')
            elif x < 0.83:
                out.append(['bmref', self.name(None, 0.5), self.run()]); self.feat.add('bookmark-ref')
            elif x < 0.90 and not innote and not inlink and depth < self.maxdepth:
                cit = r.choice([u'1', u'*', u'i', self.advstr(1), u'a<'])
                if r.random() < 0.08:
                    cit = u''
                body = [self.para(depth + 1, True)]
                for _ in range(r.choice([0, 0, 0, 1, 2])):
                    body.append(self.para(depth + 1, True) if r.random() < 0.7 else self.lst(depth + 1, True))
                if r.random() < 0.12 and depth + 2 < self.maxdepth:
                    body.insert(r.randint(0, len(body)), self.container(depth + 1, True))
                out.append(['note', r.choice(['footnote', 'endnote']), cit, body]); self.feat.add('note')
            elif x < 0.97 and allow_frame and not inlink and depth < self.maxdepth - 1:
                out.append(self.frame(depth + 1, innote) if r.random() < 0.9 else self.shape(depth + 1, innote))
            else:
                out.append(['t', self.run()])
            if r.random() < 0.3:
                out.append(['t', r.choice(WS)]); self.feat.add('ws-node')      # a white-space-only text node of its own
        if r.random() < 0.15:
            out.insert(0, ['t', r.choice(WS)]); self.feat.add('ws-node')
        return out

    def frame(self, depth, innote=False):
        r = self.rng
        anchor = r.choice([None, 'paragraph', 'char', 'as-char', 'page'])
        st = r.choice([None, None, self.name(None, 0.6)])
        if r.random() < 0.4:
            self.feat.add('image')
            return ['frame', anchor, st, ['image']]
        self.feat.add('textbox')
        blocks = []
        for _ in range(r.choice([0, 1, 1, 2])):
            blocks.append(self.para(depth + 1, innote) if r.random() < 0.75 else self.lst(depth + 1, innote))
        if r.random() < 0.12 and depth + 2 < self.maxdepth:
            blocks.insert(r.randint(0, len(blocks)), self.container(depth + 1, innote))
        if r.random() < 0.2:
            self.feat.add('image+textbox')
            return ['frame', anchor, st, ['both', blocks]]
        return ['frame', anchor, st, ['textbox', blocks]]

    def shape(self, depth, innote=False):
        """a drawing shape that holds paragraphs (draw:rect, draw:ellipse, draw:custom-shape)"""
        r = self.rng
        self.feat.add('shape')
        blocks = []
        for _ in range(r.choice([0, 1, 1, 2])):
            blocks.append(self.para(depth + 1, innote) if r.random() < 0.8 else self.lst(depth + 1, innote))
        return ['shape', r.choice(['rect', 'ellipse', 'custom', 'rect', 'ellipse', 'custom', 'circle', 'line', 'g']), r.choice([None, 'paragraph', 'char', 'as-char', 'page']),
                r.choice([None, None, self.name(None, 0.6)]), blocks]

    def index(self, depth, innote=False):
        """a table of content / index: its body holds ordinary block content (and an index title)"""
        r = self.rng
        self.feat.add('index')
        kind = r.choice(sorted(INDEX))
        title = None
        if r.random() < 0.6:
            self.feat.add('index-title')
            title = [self.para(depth + 2, innote) for _ in range(r.choice([1, 1, 2]))]
        body = []
        for _ in range(r.choice([0, 1, 2, 3])):
            x = r.random()
            if x < 0.7 or depth + 2 >= self.maxdepth:
                body.append(self.para(depth + 2, innote))
            elif x < 0.85:
                body.append(self.lst(depth + 2, innote))
            elif x < 0.93:
                body.append(['section', self.name(None, 0.4), [self.para(depth + 2, innote)]])
            else:
                body.append(self.container(depth + 2, innote))
        return ['index', kind, self.name(None, 0.4), title, body]

    def numpar(self, depth, innote=False):
        r = self.rng
        self.feat.add('numbered-paragraph')
        inner = self.para(depth + 1, innote) if r.random() < 0.8 else self.heading(depth + 1, innote)
        return ['numpar', self.name(None, 0.3), r.choice([None, None, 1, 2, 10]), inner]

    def container(self, depth, innote=False):
        """one of the block-level containers: a frame / shape that is a CHILD of the block container, an index, a numbered paragraph"""
        r = self.rng
        x = r.random()
        if x < 0.45 and depth + 1 < self.maxdepth:
            self.feat.add('block-frame')
            return self.frame(depth + 1, innote)
        if x < 0.55 and depth + 1 < self.maxdepth:
            self.feat.add('block-shape')
            return self.shape(depth + 1, innote)
        if x < 0.8 and depth + 2 < self.maxdepth:
            return self.index(depth, innote)
        return self.numpar(depth, innote)

    # ---------------------------------------------------------------- blocks
    def para(self, depth, innote=False):
        return ['p', self.pstyle(), self.inlines(depth, innote)]

    def heading(self, depth, innote=False):
        r = self.rng
        lvl = r.choice([1, 1, 2, 3, 4, 5, 6, 7, 8, 9, 10, 11, 12, 25])
        if r.random() < 0.10:
            lvl = None
        if lvl is None:
            self.feat.add('h-nolevel')
        elif lvl >= 4:
            self.feat.add('h-deep')
        return ['h', lvl, self.pstyle(), self.inlines(depth, innote, allow_frame=False)]

    def lst(self, depth, innote=False, nest=1):
        r = self.rng
        st = r.choice(self.lstyles) if (self.lstyles and r.random() < 0.6) else (None if r.random() < 0.7 else self.name(None, 0.7))
        items = []
        for _ in range(r.choice([1, 2, 2, 3])):
            it = [self.para(depth + 1, innote) if r.random() < 0.85 else self.heading(depth + 1, innote)]
            if depth + 1 < self.maxdepth and r.random() < (0.55 if nest < 3 else 0.15):
                it.append(self.lst(depth + 1, innote, nest + 1))
                if nest + 1 >= 3:
                    self.feat.add('list3')
                if r.random() < 0.3:
                    it.append(self.para(depth + 1, innote))
            items.append(it)
        self.feat.add('list')
        header = None
        if r.random() < 0.25:
            self.feat.add('list-header')
            header = [self.para(depth + 1, innote) if r.random() < 0.7 else self.heading(depth + 1, innote)]
            if depth + 1 < self.maxdepth and nest < 3 and r.random() < 0.3:
                header.append(self.lst(depth + 1, innote, nest + 1))
        return ['list', st, items, header]

    def table(self, depth, innote=False, sheet=False):
        r = self.rng
        ncols = r.randint(1, 3)
        cols = []
        k = 0
        while k < ncols:
            rep = r.choice([None, None, 1, 2])
            cols.append([r.choice([None, self.name(None, 0.5)]), rep])
            k += rep or 1
        rows = []
        for _ in range(r.randint(1, 3)):
            cells = []
            c = 0
            while c < ncols:
                cs = r.choice([None, None, None, 2]) if c + 1 < ncols else None
                rs = r.choice([None, None, None, 2])
                blocks = []
                for _ in range(r.choice([0, 1, 1, 1, 2])):
                    x = r.random()
                    if x > 0.94 and depth + 2 < self.maxdepth and r.random() < 0.7:
                        # a block-level container in the cell (in a spreadsheet: frames and shapes only)
                        if sheet:
                            self.feat.add('block-frame')
                            blocks.append(self.frame(depth + 1, innote) if r.random() < 0.8 else self.shape(depth + 1, innote))
                        else:
                            blocks.append(self.container(depth + 1, innote))
                    elif sheet or x < 0.7 or depth + 1 >= self.maxdepth:
                        blocks.append(self.para(depth + 1, innote))
                    elif x < 0.85:
                        blocks.append(self.lst(depth + 1, innote))
                    elif x < 0.93:
                        blocks.append(self.heading(depth + 1, innote))
                    else:
                        blocks.append(self.table(depth + 1, innote)); self.feat.add('nested-table')
                cells.append(['cell', {'rs': rs, 'cs': cs, 'rep': r.choice([None, None, None, 2]) if not cs else None,
                                       'style': (r.choice(self.cellstyles) if self.cellstyles and r.random() < 0.5 else None)}, blocks])
                c += 1
                if cs:
                    cells.append(['covered']); c += 1; self.feat.add('span-cells')
            rows.append([r.choice([None, None, self.name(None, 0.5)]), cells, r.choice([None, None, None, 2])])
        self.feat.add('table')
        nh = 0
        if r.random() < 0.3:
            nh = r.randint(1, len(rows)); self.feat.add('header-rows')
        return ['table', self.name(None, 0.4), r.choice([None, self.name(None, 0.5)]), cols, rows, nh]

    def block(self, depth, insection=False):
        r = self.rng
        if r.random() < 0.09 and depth + 1 < self.maxdepth:
            return self.container(depth)
        x = r.random()
        if x < 0.45 or depth >= self.maxdepth:
            return self.para(depth)
        if x < 0.6:
            return self.heading(depth)
        if x < 0.77:
            return self.lst(depth)
        if x < 0.91:
            return self.table(depth)
        if x > 0.985:
            self.feat.add('soft-page-break')
            return ['spb']
        self.feat.add('section')
        kids = [self.block(depth + 1, True) for _ in range(r.randint(1, 3))]
        return ['section', self.name(None, 0.4), kids]

    def doc(self, kind=None):
        r = self.rng
        kind = kind or r.choice(['text'] * 6 + ['sheet', 'pres'] * 1)
        m = {}
        for k in ('title', 'creator', 'language', 'description', 'keyword', 'generator'):
            if r.random() < 0.5:
                m[k] = self.advstr(3) if r.random() < 0.7 else r.choice(PLAINW)
        m['userdef'] = [[self.name(None, 0.5), self.advstr(2)] for _ in range(r.choice([0, 0, 1]))]
        st, ls = self.styles()
        if kind == 'text':
            body = [self.block(1) for _ in range(r.randint(1, 5))]
        elif kind == 'sheet':
            body = [self.table(1, sheet=True) for _ in range(r.randint(1, 2))]
        else:
            body = []
            for _ in range(r.randint(1, 3)):
                frames = [(self.frame(2) if r.random() < 0.85 else self.shape(2)) for _ in range(r.randint(1, 3))]
                body.append(['page', self.name(None, 0.5), frames])
        return {'kind': kind, 'meta': m, 'styles': st, 'liststyles': ls, 'body': body}


# ---------------------------------------------------------------- neutralisation (structure oracle)
def neutral_str(s, table):
    """adversarial strings -> plain letters, consistently (equal strings stay equal, distinct stay distinct,
    a leading '#' and emptiness are kept); strings over the safe alphabet are kept as they are"""
    if s is None or not isinstance(s, str):
        return s
    if all(c in SAFE for c in s):
        return s
    if s not in table:
        body = u''.join(c if (c in SAFE and c != u' ') else u'x' for c in s)
        table[s] = (u'#' if s[:1] == u'#' else u'') + u'Q%dq' % len(table) + body
    return table[s]


def neutral(x, table=None):
    """the same description with every adversarial string replaced (structural keywords are over the safe alphabet)"""
    if table is None:
        table = {}
    if isinstance(x, str):
        return neutral_str(x, table)
    if isinstance(x, list):
        return [neutral(y, table) for y in x]
    if isinstance(x, dict):
        return dict((k, neutral(v, table)) for k, v in x.items())
    return x


TAGS = set(['p', 'h', 'list', 'table', 'section', 'page', 'cell', 'covered', 't', 'span', 'a', 's', 'tab', 'br', 'bm', 'bms', 'bme',
            'bmref', 'note', 'frame', 'textbox', 'image', 'shape', 'index', 'numpar'])


# ---------------------------------------------------------------- builder (odfpy public API; attribute values set raw)
def build(spec):
    from odf.opendocument import OpenDocumentText, OpenDocumentSpreadsheet, OpenDocumentPresentation
    from odf import text, table, draw, dc, meta, style
    kind = spec['kind']
    d = {'text': OpenDocumentText, 'sheet': OpenDocumentSpreadsheet, 'pres': OpenDocumentPresentation}[kind]()
    href_png = [None]

    def raw(el, ns, local, val):
        if val is not None:
            el.attributes[(NS[ns], local)] = val
        return el

    m = spec.get('meta', {})
    if m.get('title') is not None: d.meta.addElement(dc.Title(text=m['title']))
    if m.get('creator') is not None: d.meta.addElement(dc.Creator(text=m['creator']))
    if m.get('language') is not None: d.meta.addElement(dc.Language(text=m['language']))
    if m.get('description') is not None: d.meta.addElement(dc.Description(text=m['description']))
    if m.get('keyword') is not None: d.meta.addElement(meta.Keyword(text=m['keyword']))
    if m.get('generator') is not None: d.meta.addElement(meta.Generator(text=m['generator']))
    for nm, val in m.get('userdef', []):
        u = meta.UserDefined(name=u'x', text=val); raw(u, 'office', 'dummy', None)
        u.attributes[(u"urn:oasis:names:tc:opendocument:xmlns:meta:1.0", 'name')] = nm
        d.meta.addElement(u)

    for s in spec.get('styles', []):
        st = style.Style(name=u'x', family=s['fam'])
        raw(st, 'style', 'name', s['name'])
        raw(st, 'style', 'parent-style-name', s.get('parent'))
        tp = {}
        if s.get('bold'): tp['fontweight'] = u'bold'
        if s.get('italic'): tp['fontstyle'] = u'italic'
        if tp or s.get('color') is not None:
            t = style.TextProperties(**tp)
            raw(t, 'fo', 'color', s.get('color'))
            st.addElement(t)
        if s.get('margin') is not None and s['fam'] == 'paragraph':
            st.addElement(style.ParagraphProperties(marginleft=s['margin']))
        (d.automaticstyles if s.get('auto') else d.styles).addElement(st)
    for s in spec.get('liststyles', []):
        ls = text.ListStyle(name=u'x')
        raw(ls, 'style', 'name', s['name'])
        for i, k in enumerate(s['levels']):
            if k == 'b':
                ls.addElement(text.ListLevelStyleBullet(level=i + 1, bulletchar=u'*'))
            else:
                ls.addElement(text.ListLevelStyleNumber(level=i + 1, numformat=u'1'))
        (d.automaticstyles if s.get('auto') else d.styles).addElement(ls)

    def inl(parent, items):
        for it in items:
            k = it[0]
            if k == 't':
                parent.addText(it[1])
            elif k == 'span':
                e = text.Span(); raw(e, 'text', 'style-name', it[1]); parent.addElement(e); inl(e, it[2])
            elif k == 'a':
                e = text.A(href=u'x'); raw(e, 'xlink', 'href', it[1]); parent.addElement(e); inl(e, it[2])
            elif k == 's':
                e = text.S()
                if it[1] is not None: raw(e, 'text', 'c', u'%d' % it[1])
                parent.addElement(e)
            elif k == 'spb':
                parent.addElement(text.SoftPageBreak())
            elif k == 'tab':
                parent.addElement(text.Tab())
            elif k == 'br':
                parent.addElement(text.LineBreak())
            elif k in ('bm', 'bms', 'bme'):
                e = {'bm': text.Bookmark, 'bms': text.BookmarkStart, 'bme': text.BookmarkEnd}[k](name=u'x')
                raw(e, 'text', 'name', it[1]); parent.addElement(e)
            elif k == 'bmref':
                e = text.BookmarkRef(refname=u'x'); raw(e, 'text', 'ref-name', it[1]); e.addText(it[2]); parent.addElement(e)
            elif k == 'note':
                n = text.Note(noteclass=it[1])
                c = text.NoteCitation()
                if it[2] != u'':
                    c.addText(it[2])
                n.addElement(c)
                nb = text.NoteBody(); n.addElement(nb)
                blocks(nb, it[3])
                parent.addElement(n)
            elif k == 'frame':
                f = draw.Frame(width=u'2cm', height=u'1cm')
                raw(f, 'text', 'anchor-type', it[1]); raw(f, 'draw', 'style-name', it[2])
                if kind == 'pres':
                    raw(f, 'svg', 'x', u'1cm'); raw(f, 'svg', 'y', u'1cm')
                parent.addElement(f)
                if it[3][0] in ('image', 'both'):
                    if href_png[0] is None:
                        href_png[0] = d.addPictureFromString(PNG, u'image/png')
                    f.addElement(draw.Image(href=href_png[0]))
                if it[3][0] in ('textbox', 'both'):
                    tb = draw.TextBox(); f.addElement(tb); blocks(tb, it[3][1])
            elif k == 'shape':
                if it[1] == 'line':
                    f = draw.Line(x1=u'0cm', y1=u'0cm', x2=u'2cm', y2=u'1cm')
                elif it[1] == 'g':
                    f = draw.G()
                else:
                    cls = {'rect': draw.Rect, 'ellipse': draw.Ellipse, 'custom': draw.CustomShape, 'circle': draw.Circle}[it[1]]
                    f = cls(width=u'2cm', height=u'1cm')
                raw(f, 'text', 'anchor-type', it[2]); raw(f, 'draw', 'style-name', it[3])
                if kind == 'pres' and it[1] not in SHAPES_UNLISTED:
                    raw(f, 'svg', 'x', u'1cm'); raw(f, 'svg', 'y', u'1cm')
                parent.addElement(f)
                if it[1] == 'g':
                    inner = draw.Rect(width=u'2cm', height=u'1cm'); f.addElement(inner); f = inner
                blocks(f, it[4])
            else:
                raise ValueError('inline %r' % (k,))

    def blocks(parent, items):
        for b in items:
            k = b[0]
            if k == 'p':
                e = text.P(); raw(e, 'text', 'style-name', b[1]); parent.addElement(e); inl(e, b[2])
            elif k == 'h':
                e = text.H(outlinelevel=1)
                if b[1] is None:
                    del e.attributes[(NS['text'], 'outline-level')]
                else:
                    raw(e, 'text', 'outline-level', u'%d' % b[1])
                raw(e, 'text', 'style-name', b[2]); parent.addElement(e); inl(e, b[3])
            elif k == 'list':
                e = text.List(); raw(e, 'text', 'style-name', b[1]); parent.addElement(e)
                if len(b) > 3 and b[3] is not None:
                    lh = text.ListHeader(); e.addElement(lh); blocks(lh, b[3])
                for item in b[2]:
                    li = text.ListItem(); e.addElement(li); blocks(li, item)
            elif k == 'table':
                e = table.Table(name=u'x'); raw(e, 'table', 'name', b[1]); raw(e, 'table', 'style-name', b[2]); parent.addElement(e)
                for cst, rep in b[3]:
                    c = table.TableColumn(); raw(c, 'table', 'style-name', cst)
                    if rep is not None: raw(c, 'table', 'number-columns-repeated', u'%d' % rep)
                    e.addElement(c)
                nh = b[5] if len(b) > 5 else 0
                hdr = None
                if nh:
                    hdr = table.TableHeaderRows(); e.addElement(hdr)
                for ri, row in enumerate(b[4]):
                    rst, cells = row[0], row[1]
                    r = table.TableRow(); raw(r, 'table', 'style-name', rst); (hdr if ri < nh else e).addElement(r)
                    if len(row) > 2 and row[2]: raw(r, 'table', 'number-rows-repeated', u'%d' % row[2])
                    for cell in cells:
                        if cell[0] == 'covered':
                            r.addElement(table.CoveredTableCell())
                        else:
                            a = cell[1]
                            c = table.TableCell(valuetype=u'string') if kind == 'sheet' else table.TableCell()
                            if a.get('rs'): raw(c, 'table', 'number-rows-spanned', u'%d' % a['rs'])
                            if a.get('cs'): raw(c, 'table', 'number-columns-spanned', u'%d' % a['cs'])
                            if a.get('rep'): raw(c, 'table', 'number-columns-repeated', u'%d' % a['rep'])
                            raw(c, 'table', 'style-name', a.get('style'))
                            r.addElement(c); blocks(c, cell[2])
            elif k == 'spb':
                parent.addElement(text.SoftPageBreak())
            elif k == 'section':
                e = text.Section(name=u'x'); raw(e, 'text', 'name', b[1]); parent.addElement(e); blocks(e, b[2])
            elif k in ('frame', 'shape'):
                inl(parent, [b])                       # the same element, as a child of the block container
            elif k == 'index':
                el, src = INDEX[b[1]]
                cls, scls = {'toc': (text.TableOfContent, text.TableOfContentSource), 'alpha': (text.AlphabeticalIndex, text.AlphabeticalIndexSource),
                             'illus': (text.IllustrationIndex, text.IllustrationIndexSource), 'tabidx': (text.TableIndex, text.TableIndexSource),
                             'objidx': (text.ObjectIndex, text.ObjectIndexSource), 'user': (text.UserIndex, text.UserIndexSource),
                             'bib': (text.Bibliography, text.BibliographySource)}[b[1]]
                e = cls(name=u'x'); raw(e, 'text', 'name', b[2]); parent.addElement(e)
                e.addElement(scls(indexname=u'ix') if b[1] == 'user' else scls())
                ib = text.IndexBody(); e.addElement(ib)
                if b[3] is not None:
                    it = text.IndexTitle(name=u'x'); raw(it, 'text', 'name', (b[2] or u'') + u'_Head'); ib.addElement(it)
                    blocks(it, b[3])
                blocks(ib, b[4])
            elif k == 'numpar':
                e = text.NumberedParagraph(listid=u'x'); raw(e, 'text', 'list-id', b[1])
                if b[2] is not None: raw(e, 'text', 'level', u'%d' % b[2])
                parent.addElement(e); blocks(e, [b[3]])
            elif k == 'page':
                if not getattr(d, '_c18_mp', None):
                    pl = style.PageLayout(name=u'PL1'); d.automaticstyles.addElement(pl)
                    mp = style.MasterPage(name=u'MP1', pagelayoutname=pl); d.masterstyles.addElement(mp)
                    d._c18_mp = mp
                e = draw.Page(masterpagename=d._c18_mp); raw(e, 'draw', 'name', b[1]); parent.addElement(e)
                inl(e, b[2])
            else:
                raise ValueError('block %r' % (k,))

    top = {'text': lambda: d.text, 'sheet': lambda: d.spreadsheet, 'pres': lambda: d.presentation}[kind]()
    blocks(top, spec['body'])
    return d


# ---------------------------------------------------------------- the independent reading of a description
# classes of block-level containers whose text a converter may lose as a whole (MoinMoin: m-…; a run carries the flag of
# the OUTERMOST such container only), and the class of paragraph text standing directly in front of a drawing shape (XHTML)
# - repaired in /repo by af61005 (MoinMoin: CONTAINER_TAGS) and e7e9e0f (XHTML: s_draw_shape); the flags NAME a regression
M_LOST = ('m-top-frame', 'm-top-shape', 'm-nested-shape', 'm-top-index', 'm-nested-index',
          'm-top-numbered-paragraph', 'm-nested-numbered-paragraph', 'm-top-shape-unlisted', 'm-nested-shape-unlisted')
X_LOST = ('x-pending-before-shape',)


def _mark(flags, name):
    f2 = set(flags)
    if not any(f in M_LOST for f in f2):
        f2.add(name)
    return f2


def _purges(blocks):
    for b in blocks:
        if b[0] in ('p', 'h', 'list', 'table', 'numpar'):
            return True
        if b[0] == 'section' and _purges(b[2]):
            return True
    return False


def visible(spec):
    """document order list of events of the source:
         ('r', text, par, flags)   a text run; `par` identifies the enclosing paragraph/heading;
                                   flags = names of the known-finding classes the run falls into
         ('sep', kind, c, pending, wsinline)   text:s / text:tab / text:line-break; pending = character data of the
                                   same run is still unwritten when a text:s arrives (XHTML finding class); wsinline = inside a
                                   span/link whose whole content is white space (MoinMoin finding class)
         ('io',)                   an inline element boundary (span, link, bookmark-ref)
         ('x',)                    anything else that may legitimately put output between two runs
       note bodies are returned separately (they may move to the end)."""
    main, notes = [], []
    par_counter = [0]
    heads = []

    def wsonly(items):
        for it in items:
            if it[0] == 't':
                if it[1].strip() != u'':
                    return False
            elif it[0] == 'span' or it[0] == 'a':
                if not wsonly(it[2]):
                    return False
            elif it[0] not in ('s', 'tab', 'bm', 'bms', 'bme', 'spb'):
                return False
        return True

    def inl(items, out, par, flags, pend, wsin=False):
        for it in items:
            k = it[0]
            if k == 't':
                if it[1] != u'' and it[1].strip() == u'':
                    out.append(('sep', 'ws', 0, False, wsin))           # a white-space-only text node separates its neighbours
                else:
                    out.append(['r', it[1], par, set(flags)]); pend.append(out[-1])
            elif k in ('span', 'a'):
                del pend[:]
                out.append(('io',)); inl(it[2], out, par, flags, pend, wsin or wsonly(it[2])); out.append(('io',))
                del pend[:]
            elif k == 'spb':
                out.append(('x',))
            elif k == 's' and it[1] == 0:
                out.append(('io',))                         # text:c="0": no blank at all
            elif k == 's':
                out.append(('sep', 's', 1 if it[1] is None else it[1], bool([p for p in pend if p[1].strip() != u'']), wsin))
            elif k == 'tab':
                del pend[:]; out.append(('sep', 'tab', 1, False, wsin))
            elif k == 'br':
                del pend[:]; out.append(('sep', 'br', 1, False, wsin))
            elif k in ('bm', 'bms'):
                del pend[:]; out.append(('x',))
            elif k == 'bme':
                out.append(('x',))
            elif k == 'bmref':
                del pend[:]
                out.append(('io',)); out.append(['r', it[2], par, set(flags)]); out.append(('io',))
            elif k == 'note':
                del pend[:]
                out.append(('x',))
                nb = []
                first = True
                for b in it[3]:
                    f2 = set(flags)
                    if not first or b[0] not in ('p', 'h'):
                        f2.add('m-note-tail')
                    first = False
                    blocks([b], nb, f2, inbox=True)
                notes.append(nb)
            elif k == 'frame':
                out.append(('x',))
                if it[3][0] in ('textbox', 'both'):
                    if _purges(it[3][1]):
                        for p in pend:
                            p[3].add('x-pending-before-textbox')
                        del pend[:]
                    blocks(it[3][1], out, flags, inbox=True)
                out.append(('x',))
            elif k == 'shape':
                out.append(('x',))
                if it[4]:
                    for p in pend:
                        p[3].add('x-pending-before-shape')
                    del pend[:]
                blocks(it[4], out, _mark(flags, 'm-nested-shape' + ('-unlisted' if it[1] in SHAPES_UNLISTED else '')), inbox=True)
                out.append(('x',))

    def blocks(items, out, flags, inbox=False, insection=False, top=False):
        for b in items:
            k = b[0]
            out.append(('x',))
            if k == 'frame':
                inl([b], out, 0, _mark(flags, 'm-top-frame') if top else flags, [])
            elif k == 'shape':
                blocks(b[4], out, _mark(flags, ('m-top-shape' if top else 'm-nested-shape') + ('-unlisted' if b[1] in SHAPES_UNLISTED else '')), inbox=True)
            elif k == 'index':
                f2 = _mark(flags, 'm-top-index' if top else 'm-nested-index')
                if b[3] is not None:
                    blocks(b[3], out, f2, inbox=True)
                blocks(b[4], out, f2, inbox=True)
            elif k == 'numpar':
                blocks([b[3]], out, _mark(flags, 'm-top-numbered-paragraph' if top else 'm-nested-numbered-paragraph'), inbox=inbox)
            elif k == 'p':
                par_counter[0] += 1
                inl(b[2], out, par_counter[0], flags, [])
            elif k == 'h':
                par_counter[0] += 1
                f2 = set(flags)
                if b[1] is None:
                    heads.append(par_counter[0])
                inl(b[3], out, par_counter[0], f2, [])
            elif k == 'list':
                if len(b) > 3 and b[3] is not None:
                    blocks(b[3], out, flags, inbox)
                for item in b[2]:
                    blocks(item, out, flags, inbox)
            elif k == 'table':
                f2 = set(flags)
                if inbox or insection:
                    f2.add('m-nested-table')
                for row in b[4]:
                    for cell in row[1]:
                        if cell[0] == 'cell':
                            blocks(cell[2], out, f2, inbox=True)
            elif k == 'section':
                f2 = set(flags)
                if inbox or insection:
                    f2.add('m-nested-section')
                blocks(b[2], out, f2, inbox=inbox, insection=True)
            elif k == 'page':
                inl(b[2], out, 0, flags, [])
            out.append(('x',))

    blocks(spec['body'], main, set(), top=(spec['kind'] == 'text'))
    return main, notes


def features(spec):
    """decidable classes of inputs the known findings are stated over"""
    f = set()

    def walk(x, inpar_pending=False):
        if isinstance(x, list):
            if x and x[0] == 'h' and x[1] is None:
                f.add('h-nolevel')
            if x and x[0] == 'note' and x[2] == u'':
                f.add('note-empty-citation')
            for y in x:
                walk(y)
        elif isinstance(x, dict):
            for k in sorted(x):
                walk(x[k])
    walk(spec['body'])
    names = []
    for s in spec.get('styles', []):
        names += [s['name'], s.get('parent') or u'', s.get('color') or u'', s.get('margin') or u'']
    for s in spec.get('liststyles', []):
        names.append(s['name'])
    if any(u']]>' in n for n in names):
        f.add('css-cdata-end')
    return f


# ---------------------------------------------------------------- the harness's OWN serialiser (second route)
# The package is written from the description without odfpy: pretty-printed between block elements (white space there is
# not content), character data exactly as described inside paragraph content, and - optionally - other namespace prefixes.
NSURI = dict(NS)
NSURI.update({'dc': u"http://purl.org/dc/elements/1.1/", 'meta': u"urn:oasis:names:tc:opendocument:xmlns:meta:1.0",
              'manifest': u"urn:oasis:names:tc:opendocument:xmlns:manifest:1.0"})
ALT = {'office': 'o', 'text': 'tx', 'table': 'tb', 'draw': 'dr', 'style': 'sty', 'xlink': 'xl', 'svg': 'sv', 'fo': 'f',
       'presentation': 'pr', 'dc': 'dcx', 'meta': 'mt'}
MIME = {'text': u'application/vnd.oasis.opendocument.text', 'sheet': u'application/vnd.oasis.opendocument.spreadsheet',
        'pres': u'application/vnd.oasis.opendocument.presentation'}


def _esc_text(s):
    return s.replace(u'&', u'&amp;').replace(u'<', u'&lt;').replace(u'>', u'&gt;').replace(u'\r', u'&#13;')


def _esc_attr(s):
    return (s.replace(u'&', u'&amp;').replace(u'<', u'&lt;').replace(u'"', u'&quot;').replace(u'\n', u'&#10;')
            .replace(u'\r', u'&#13;').replace(u'\t', u'&#9;'))


class Ser(object):
    def __init__(self, spec, alt=False, pretty=True):
        self.spec = spec
        self.pretty = pretty
        self.pfx = dict((k, (ALT.get(k, k) if alt else k)) for k in NSURI)
        self.out = []
        self.png = False

    def q(self, name):
        p, l = name.split(':')
        return self.pfx[p] + u':' + l

    def open(self, name, attrs=(), empty=False):
        a = u''.join(u' %s="%s"' % (self.q(k), _esc_attr(v)) for k, v in attrs if v is not None)
        self.out.append(u'<%s%s%s>' % (self.q(name), a, u'/' if empty else u''))

    def close(self, name):
        self.out.append(u'</%s>' % self.q(name))

    def nl(self, depth):
        if self.pretty:
            self.out.append(u'\n' + u' ' * depth)

    def root(self, name):
        ns = u''.join(u' xmlns:%s="%s"' % (self.pfx[k], NSURI[k]) for k in sorted(NSURI) if k != 'manifest')
        self.out.append(u'<?xml version="1.0" encoding="UTF-8"?>\n<%s%s %s="1.2">' % (self.q(name), ns, self.q('office:version')))

    # ---- content
    def inl(self, items, depth):
        for it in items:
            k = it[0]
            if k == 't':
                self.out.append(_esc_text(it[1]))
            elif k == 'span':
                self.open('text:span', [('text:style-name', it[1])]); self.inl(it[2], depth); self.close('text:span')
            elif k == 'a':
                self.open('text:a', [('xlink:href', it[1])]); self.inl(it[2], depth); self.close('text:a')
            elif k == 's':
                self.open('text:s', [('text:c', None if it[1] is None else u'%d' % it[1])], True)
            elif k == 'spb':
                self.open('text:soft-page-break', [], True)
            elif k == 'tab':
                self.open('text:tab', [], True)
            elif k == 'br':
                self.open('text:line-break', [], True)
            elif k in ('bm', 'bms', 'bme'):
                self.open({'bm': 'text:bookmark', 'bms': 'text:bookmark-start', 'bme': 'text:bookmark-end'}[k], [('text:name', it[1])], True)
            elif k == 'bmref':
                self.open('text:bookmark-ref', [('text:ref-name', it[1])]); self.out.append(_esc_text(it[2])); self.close('text:bookmark-ref')
            elif k == 'note':
                self.open('text:note', [('text:note-class', it[1])])
                self.open('text:note-citation'); self.out.append(_esc_text(it[2])); self.close('text:note-citation')
                self.open('text:note-body'); self.blocks(it[3], depth + 1); self.nl(depth); self.close('text:note-body')
                self.close('text:note')
            elif k == 'frame':
                a = [('svg:width', u'2cm'), ('svg:height', u'1cm'), ('text:anchor-type', it[1]), ('draw:style-name', it[2])]
                if self.spec['kind'] == 'pres':
                    a += [('svg:x', u'1cm'), ('svg:y', u'1cm')]
                self.open('draw:frame', a)
                if it[3][0] in ('image', 'both'):
                    self.png = True
                    self.nl(depth + 1); self.open('draw:image', [('xlink:href', u'Pictures/c18.png')], True)
                if it[3][0] in ('textbox', 'both'):
                    self.nl(depth + 1); self.open('draw:text-box'); self.blocks(it[3][1], depth + 2); self.nl(depth + 1); self.close('draw:text-box')
                self.nl(depth); self.close('draw:frame')
            elif k == 'shape':
                size = [('svg:width', u'2cm'), ('svg:height', u'1cm')]
                a = [('text:anchor-type', it[2]), ('draw:style-name', it[3])]
                if it[1] == 'line':
                    a = [('svg:x1', u'0cm'), ('svg:y1', u'0cm'), ('svg:x2', u'2cm'), ('svg:y2', u'1cm')] + a
                elif it[1] != 'g':
                    a = size + a
                    if self.spec['kind'] == 'pres':
                        a += [('svg:x', u'1cm'), ('svg:y', u'1cm')]
                nm = 'draw:' + SHAPES[it[1]]
                self.open(nm, a)
                if it[1] == 'g':
                    self.nl(depth + 1); self.open('draw:rect', size); self.blocks(it[4], depth + 2); self.nl(depth + 1); self.close('draw:rect')
                else:
                    self.blocks(it[4], depth + 1)
                self.nl(depth); self.close(nm)

    def blocks(self, items, depth):
        for b in items:
            k = b[0]
            self.nl(depth)
            if k == 'p':
                self.open('text:p', [('text:style-name', b[1])]); self.inl(b[2], depth); self.close('text:p')
            elif k == 'h':
                self.open('text:h', [('text:outline-level', None if b[1] is None else u'%d' % b[1]), ('text:style-name', b[2])])
                self.inl(b[3], depth); self.close('text:h')
            elif k == 'list':
                self.open('text:list', [('text:style-name', b[1])])
                if len(b) > 3 and b[3] is not None:
                    self.nl(depth + 1); self.open('text:list-header'); self.blocks(b[3], depth + 2); self.nl(depth + 1); self.close('text:list-header')
                for item in b[2]:
                    self.nl(depth + 1); self.open('text:list-item'); self.blocks(item, depth + 2); self.nl(depth + 1); self.close('text:list-item')
                self.nl(depth); self.close('text:list')
            elif k == 'table':
                self.open('table:table', [('table:name', b[1]), ('table:style-name', b[2])])
                for cst, rep in b[3]:
                    self.nl(depth + 1)
                    self.open('table:table-column', [('table:style-name', cst), ('table:number-columns-repeated', None if rep is None else u'%d' % rep)], True)
                nh = b[5] if len(b) > 5 else 0
                if nh:
                    self.nl(depth + 1); self.open('table:table-header-rows')
                for ri, row in enumerate(b[4]):
                    rst, cells = row[0], row[1]
                    if nh and ri == nh:
                        self.nl(depth + 1); self.close('table:table-header-rows')
                    self.nl(depth + 1); self.open('table:table-row', [('table:style-name', rst),
                        ('table:number-rows-repeated', u'%d' % row[2] if len(row) > 2 and row[2] else None)])
                    for cell in cells:
                        self.nl(depth + 2)
                        if cell[0] == 'covered':
                            self.open('table:covered-table-cell', [], True)
                        else:
                            a = cell[1]
                            self.open('table:table-cell', [('office:value-type', u'string' if self.spec['kind'] == 'sheet' else None),
                                                            ('table:number-rows-spanned', u'%d' % a['rs'] if a.get('rs') else None),
                                                            ('table:number-columns-spanned', u'%d' % a['cs'] if a.get('cs') else None),
                                                            ('table:number-columns-repeated', u'%d' % a['rep'] if a.get('rep') else None),
                                                            ('table:style-name', a.get('style'))])
                            self.blocks(cell[2], depth + 3)
                            if cell[2]:
                                self.nl(depth + 2)
                            self.close('table:table-cell')
                    self.nl(depth + 1); self.close('table:table-row')
                if nh and nh >= len(b[4]):
                    self.nl(depth + 1); self.close('table:table-header-rows')
                self.nl(depth); self.close('table:table')
            elif k == 'spb':
                self.open('text:soft-page-break', [], True)
            elif k == 'section':
                self.open('text:section', [('text:name', b[1])]); self.blocks(b[2], depth + 1); self.nl(depth); self.close('text:section')
            elif k in ('frame', 'shape'):
                self.inl([b], depth)
            elif k == 'index':
                el, src = INDEX[b[1]]
                self.open('text:' + el, [('text:name', b[2])])
                self.nl(depth + 1); self.open('text:' + src, [('text:index-name', u'ix' if b[1] == 'user' else None)], True)
                self.nl(depth + 1); self.open('text:index-body')
                if b[3] is not None:
                    self.nl(depth + 2); self.open('text:index-title', [('text:name', (b[2] or u'') + u'_Head')])
                    self.blocks(b[3], depth + 3); self.nl(depth + 2); self.close('text:index-title')
                self.blocks(b[4], depth + 2)
                self.nl(depth + 1); self.close('text:index-body'); self.nl(depth); self.close('text:' + el)
            elif k == 'numpar':
                self.open('text:numbered-paragraph', [('text:list-id', b[1]), ('text:level', None if b[2] is None else u'%d' % b[2])])
                self.blocks([b[3]], depth + 1); self.nl(depth); self.close('text:numbered-paragraph')
            elif k == 'page':
                self.open('draw:page', [('draw:name', b[1]), ('draw:master-page-name', u'MP1')])
                for f in b[2]:
                    self.nl(depth + 1); self.inl([f], depth + 1)
                self.nl(depth); self.close('draw:page')

    def styles(self, auto, depth):
        for st in self.spec.get('styles', []):
            if bool(st.get('auto')) != auto:
                continue
            self.nl(depth)
            self.open('style:style', [('style:name', st['name']), ('style:family', st['fam']), ('style:parent-style-name', st.get('parent'))])
            tp = [('fo:font-weight', u'bold' if st.get('bold') else None), ('fo:font-style', u'italic' if st.get('italic') else None),
                  ('fo:color', st.get('color'))]
            if any(v is not None for _, v in tp):
                self.nl(depth + 1); self.open('style:text-properties', tp, True)
            if st.get('margin') is not None and st['fam'] == 'paragraph':
                self.nl(depth + 1); self.open('style:paragraph-properties', [('fo:margin-left', st['margin'])], True)
            self.nl(depth); self.close('style:style')
        for ls in self.spec.get('liststyles', []):
            if bool(ls.get('auto')) != auto:
                continue
            self.nl(depth); self.open('text:list-style', [('style:name', ls['name'])])
            for i, kind in enumerate(ls['levels']):
                self.nl(depth + 1)
                if kind == 'b':
                    self.open('text:list-level-style-bullet', [('text:level', u'%d' % (i + 1)), ('text:bullet-char', u'*')], True)
                else:
                    self.open('text:list-level-style-number', [('text:level', u'%d' % (i + 1)), ('style:num-format', u'1')], True)
            self.nl(depth); self.close('text:list-style')

    def content(self):
        self.out = []
        kind = self.spec['kind']
        body = {'text': 'office:text', 'sheet': 'office:spreadsheet', 'pres': 'office:presentation'}[kind]
        self.root('office:document-content')
        self.nl(1); self.open('office:automatic-styles'); self.styles(True, 2); self.nl(1); self.close('office:automatic-styles')
        self.nl(1); self.open('office:body'); self.nl(2); self.open(body)
        self.blocks(self.spec['body'], 3)
        self.nl(2); self.close(body); self.nl(1); self.close('office:body'); self.nl(0); self.close('office:document-content')
        return u''.join(self.out)

    def stylesxml(self):
        self.out = []
        self.root('office:document-styles')
        self.nl(1); self.open('office:styles'); self.styles(False, 2); self.nl(1); self.close('office:styles')
        if self.spec['kind'] == 'pres':
            self.nl(1); self.open('office:automatic-styles'); self.nl(2); self.open('style:page-layout', [('style:name', u'PL1')], True)
            self.nl(1); self.close('office:automatic-styles')
            self.nl(1); self.open('office:master-styles'); self.nl(2)
            self.open('style:master-page', [('style:name', u'MP1'), ('style:page-layout-name', u'PL1')], True)
            self.nl(1); self.close('office:master-styles')
        self.nl(0); self.close('office:document-styles')
        return u''.join(self.out)

    def metaxml(self):
        self.out = []
        m = self.spec.get('meta', {})
        self.root('office:document-meta')
        self.nl(1); self.open('office:meta')
        for key, el in (('title', 'dc:title'), ('creator', 'dc:creator'), ('language', 'dc:language'), ('description', 'dc:description'),
                        ('keyword', 'meta:keyword'), ('generator', 'meta:generator')):
            if m.get(key) is not None:
                self.nl(2); self.open(el); self.out.append(_esc_text(m[key])); self.close(el)
        for nm, val in m.get('userdef', []):
            self.nl(2); self.open('meta:user-defined', [('meta:name', nm)]); self.out.append(_esc_text(val)); self.close('meta:user-defined')
        self.nl(1); self.close('office:meta'); self.nl(0); self.close('office:document-meta')
        return u''.join(self.out)


def write_package(spec, path, alt=False, pretty=True):
    """the document as a package the library did not write"""
    import zipfile
    ser = Ser(spec, alt, pretty)
    content, styles, meta = ser.content(), ser.stylesxml(), ser.metaxml()
    mime = MIME[spec['kind']]
    entries = [(u'/', mime), (u'content.xml', u'text/xml'), (u'styles.xml', u'text/xml'), (u'meta.xml', u'text/xml')]
    if ser.png:
        entries.append((u'Pictures/c18.png', u'image/png'))
    man = u'<?xml version="1.0" encoding="UTF-8"?>\n<manifest:manifest xmlns:manifest="%s" manifest:version="1.2">\n' % NSURI['manifest']
    for full, mt in entries:
        man += u' <manifest:file-entry manifest:full-path="%s" manifest:media-type="%s"/>\n' % (full, mt)
    man += u'</manifest:manifest>\n'
    z = zipfile.ZipFile(path, 'w', zipfile.ZIP_DEFLATED)
    z.writestr(zipfile.ZipInfo('mimetype'), mime.encode('ascii'))
    z.writestr('META-INF/manifest.xml', man.encode('utf-8'))
    z.writestr('content.xml', content.encode('utf-8'))
    z.writestr('styles.xml', styles.encode('utf-8'))
    z.writestr('meta.xml', meta.encode('utf-8'))
    if ser.png:
        z.writestr('Pictures/c18.png', PNG)
    z.close()

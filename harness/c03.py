# -*- coding: utf-8 -*-
"""C03 - a saved package is a conforming ODF zip container with a truthful manifest.

proof:          lean/OdfModel/Props/C03.lean about the model lean/OdfModel/Pkg.lean (`save`, `load`)
correspondence: random documents (pictures by file / bytes / explicit name, thumbnail, settings, extras through
                load() of a hand-made package, objects nested to depth 3 each with pictures) are saved by the real
                library; the archive is read back with zipfile (names in order, compress_type, extra, bytes), the
                first local file header is parsed from the raw bytes at offset 0, META-INF/manifest.xml is parsed
                with expat - and compared entry by entry with `save d` computed by drv_pkg.  For documents that
                come from load(), the loaded state (Pictures, thumbnail, childobjects, _extra) is compared with
                the model's `load` first.
oracle:         the property text on the real archive (pkgcommon.oracle_c03): first-entry conditions, required
                members, no duplicate names, manifest files == archive files, '/' and object folders carry the
                media types, every registered picture byte-identical under folder + returned href with its type.
                For a document that came from load(): the extra members, object files and object pictures of the loaded
                package (read with zipfile + expat, pkgcommon.carried_of) are in every saved package of that document under
                their own paths, byte-identical, with the media type they were listed with (pkgcommon.oracle_carried; the
                model side of this clause is Props/C03 `extras_present` / Props/C05Extras `extras_carried`).
                Loaded packages hold objects 2 and 3 deep under any number ('chain'), each with a picture and files of its own.
                Picture media types include RFC 2045 parameters, upper case, +xml suffixes, the empty string, very long ones (PARAM_MTS):
                the manifest lists the string given.  Objects under explicit numbered names (descending, with gaps, equal to the next
                default name; built or loaded in that manifest order) followed by default names: a reference returned by addObject is
                not the reference of another object of the same document (`addobject-reference-already-in-use`).
                A failure in the first save of a document is replayed after the last loaded and the last built document the
                process saved before it (`process_before`): state that leaks from one save of a process into the next.
"""
import os, json, tempfile, shutil, mimetypes
import pkgcommon as pk
from common import enc_str

PIC_MTS = [u'image/png', u'image/jpeg', u'image/gif', u'image/svg+xml', u'application/x-odfpy-unknown', u'']
# media types as a caller may give them (RFC 2045 / 6838): parameters behind ';' (one, several, quoted values that hold a ';' themselves),
# upper / mixed case, structured-syntax suffixes, the empty string, only a ';', very long, XML metacharacters, non-ASCII.
# A media type is data: the manifest lists exactly the string that was given
PARAM_MTS = [u'image/svg+xml;charset=utf-8', u'image/svg+xml; charset=UTF-8', u'image/png; name="a;b"', u'image/png;name="chart 1.png"',
             u'text/plain; charset=utf-8; format=flowed', u'IMAGE/PNG', u'Image/Svg+XML', u'application/vnd.x-thing+xml',
             u'application/vnd.oasis.opendocument.graphics;version=1.2', u'image/png;', u';', u';charset=utf-8', u'image/jpeg ;q=1',
             u'image/x-long-' + u'a' * 900 + u';p=' + u'b' * 300, u"image/x-meta;q='&<>", u'image/x-\xe9;n=\u6f22', u'image', u'image/png/extra', u'']


def pick_mt(rng, pool):
    """a media type for a picture: one of `pool`, or (one in four) one of PARAM_MTS"""
    return rng.choice(PARAM_MTS) if rng.random() < 0.25 else rng.choice(pool)


# explicit picture names ({n} = 1..3, so the same name is re-registered now and then).  Names are data, never to be decoded:
# percent escapes, blanks, URL/XML metacharacters, non-ASCII, case variants, a leading './', and pairs that differ only by such an encoding
TRICKY = [u'Pictures/100%25-{n}.png', u'Pictures/a%20b{n}.gif', u'Pictures/a b{n}.gif', u'Pictures/a+b{n}.gif', u'Pictures/a%2Bb{n}.gif',
          u'Pictures/x#{n}.png', u'Pictures/x%23{n}.png', u'Pictures/q?{n}.png', u'Pictures/r&s{n}.png', u'Pictures/r&amp;s{n}.png',
          u"Pictures/it's{n}.png", u'Pictures/q"<{n}>.png', u'Pictures/\xe9{n}.png', u'Pictures/%C3%A9{n}.png', u'Pictures/\u6f22{n}.png',
          u'Pictures/Case{n}.PNG', u'Pictures/case{n}.png', u'./Pictures/dot{n}.png', u'Pictures/dot{n}.png', u'Pictures/%2e%2e/up{n}.png']
EXPLICIT = [u'Pictures/custom{n}.png', u'media/x{n}.bin', u'Pictures/\xfc{n}.png', u'Pictures/deep/er/{n}.jpg',
            u'ObjectReplacements/Object {n}'] + TRICKY
EXTRA_FILES = [(u'media/100%25.bin', u''), (u'media/a%20b.bin', u'x/y'), (u'media/a b.bin', u'x/y'), (u'media/\xe9\u6f22.bin', u''),
               (u"media/q?&'#+\"<.bin", u'a&b'), (u'Media/UP.bin', u''), (u'media/up.bin', u''), (u'./dotted.bin', u''), (u'dotted.bin', u''),
               (u'Configurations2/accelerator/current.xml', u''), (u'layout-cache', u'application/binary'),
               (u'foo/bar.bin', u'application/octet-stream'), (u'META-INF/documentsignatures.xml', u''),
               (u'Basic/script-lc.xml', u'text/xml'), (u'manifest.rdf', u'application/rdf+xml'), (u'Thumbnails/other.png', u'image/png')]
EXTRA_DIRS = [u'Configurations2/', u'Configurations2/images/Bitmaps/', u'Basic/', u'Pictures/']


# ------------------------------------------------------------------------------------------------ generation
def gen_pic(rng, n):
    how = rng.choice(['file', 'file', 'addpicture-file', 'string', 'string', 'named', 'named'])
    data = bytes(rng.randrange(256) for _ in range(rng.choice([0, 1, 5, 40])))
    p = {'how': how, 'data': data.hex()}
    if how in ('file', 'addpicture-file'):
        p['ext'] = rng.choice(['.png', '.jpg', '.xyzzy', '', '.svg'])
        p['mt'] = pick_mt(rng, [None, None, u'image/png', u'image/x-thing'])
    elif how == 'string':
        p['mt'] = pick_mt(rng, PIC_MTS[:5])
    else:
        p['name'] = rng.choice(EXPLICIT).format(n=rng.choice([1, 1, 2, 3]))     # small pool: re-registration under one name happens
        p['mt'] = pick_mt(rng, PIC_MTS)
    return p


def gen_doc(rng, depth, maxdepth):
    s = {'kind': rng.choice(['text', 'text', 'spreadsheet', 'graphics', 'chart', 'presentation', 'image', 'text-master']),
         'settings': rng.random() < 0.4,
         'pics': [gen_pic(rng, i) for i in range(rng.choice([0, 0, 1, 1, 2, 3]))],
         'thumb': bytes(rng.randrange(256) for _ in range(6)).hex() if rng.random() < (0.4 if depth == 0 else 0.1) else None,
         'kids': []}
    if depth < maxdepth:
        for _ in range(rng.choice([0, 1, 1, 2, 3] if depth == 0 else [0, 0, 1, 2])):
            k = gen_doc(rng, depth + 1, maxdepth)
            # explicit object names: with / without leading "/", with a blank, numbered like a default name (so the default
            # numbering has to skip it), a sub-folder name; a small pool, so duplicates (-> ValueError) happen
            k['name'] = rng.choice([None, None, None, None, u'MyObj', u'/MyObj', u'/Sub obj', u'Object 2', u'/Object 7', u'Obj/x', u'\xe9\u6f22'])
            s['kids'].append(k)
    return s


def numbered_nums(rng, e, taken=0):
    """`e` numbers for explicit "Object <n>" names given to a parent that holds `taken` objects: they lie where the default numbering
    is going to look (it starts at <number of objects> + 1): a run from there, or a sample with gaps around it; descending,
    shuffled or ascending"""
    s = taken + e + 1
    if rng.random() < 0.5:
        nums = list(range(s, s + e))
    else:
        nums = rng.sample(range(max(1, s - 2), s + e + 2), e)
    order = rng.choice(['desc', 'desc', 'desc', 'shuffled', 'shuffled', 'asc'])
    if order == 'shuffled':
        rng.shuffle(nums)
    else:
        nums.sort(reverse=(order == 'desc'))
    return nums


def gen_numbered(rng, from_load):
    """explicit numbered names (descending / with gaps / equal to the next default name), then default names: every default-named
    object must get a FREE name.  The parent is the top document (built, or loaded from a package whose manifest lists the
    object folders in that order) or an object of it; every object has a picture of its own"""
    def leaf(name, i):
        return {'kind': rng.choice(['text', 'spreadsheet', 'chart', 'graphics']), 'settings': False, 'thumb': None, 'kids': [], 'name': name,
                'pics': [{'how': 'string', 'data': '89%02x' % i, 'mt': u'image/png'}] if rng.random() < 0.7 else []}
    base = None
    e = rng.choice([1, 2, 2, 3, 4])
    nums = numbered_nums(rng, e)
    defaults = rng.choice([1, 1, 2, 3])
    if from_load:
        base = gen_package(rng)
        base['objects'] = [{'num': n, 'kind': rng.choice(['text', 'spreadsheet']), 'settings': False, 'nested': False, 'files': False,
                            'pics': [(u'Pictures/obj%d.png' % n, u'image/png', bytes([n % 256, 1, 2]).hex())] if rng.random() < 0.5 else []} for n in nums]
        base['shuffle'] = rng.random() < 0.2
        names = [None] * defaults
        if rng.random() < 0.3:
            names.insert(rng.randrange(len(names)), u'Object %d' % (max(nums) + rng.choice([1, 2])))
    else:
        names = [u'Object %d' % n for n in nums] + [None] * defaults
        if rng.random() < 0.25:
            # one default name early: the explicit names that follow may be equal to it (-> ValueError) or lie behind it
            names.insert(rng.randrange(e), None)
    holder = {'kind': 'text', 'settings': False, 'thumb': None, 'pics': [], 'kids': [leaf(nm, i) for i, nm in enumerate(names)]}
    if base is not None:
        holder['kind'] = base['kind']
    elif rng.random() < 0.4:
        holder['kind'] = 'spreadsheet'; holder['name'] = rng.choice([None, u'Holder'])
        holder = {'kind': 'text', 'settings': False, 'thumb': None, 'pics': [], 'kids': [holder]}
    return {'doc': holder, 'base': base, 'again': rng.random() < 0.3}


def gen_package(rng, special=None):
    """a hand-made package (dict of JSON-able parts) for load(); `special` forces one of the edge shapes"""
    kind = rng.choice(['text', 'spreadsheet'])
    ps = {'kind': kind, 'settings': rng.choice(['none', 'empty', 'full']),
          'mimetype': pk.KINDS[kind], 'root': pk.KINDS[kind],
          'pics': [((u'Pictures/pkg%d.png' % i) if rng.random() < 0.6 else rng.choice(TRICKY[:17]).format(n=i), rng.choice(PIC_MTS),
                    bytes(rng.randrange(256) for _ in range(4)).hex()) for i in range(rng.choice([0, 1, 2, 3]))],
          'thumb': bytes(rng.randrange(256) for _ in range(5)).hex() if rng.random() < 0.5 else None,
          'thumbdir': rng.random() < 0.7,
          'xfiles': [(n, t, bytes(rng.randrange(256) for _ in range(3)).hex()) for n, t in rng.sample(EXTRA_FILES, rng.choice([0, 1, 2, 4]))],
          'xdirs': rng.sample(EXTRA_DIRS, rng.choice([0, 0, 1, 2])),
          'objects': [], 'shuffle': rng.random() < 0.5, 'seed': rng.randrange(1 << 30), 'list_reserved': False}
    nums = rng.choice([[], [1], [1, 2], [1, 2, 3]])
    for n in nums:
        ps['objects'].append({'num': n, 'kind': rng.choice(['text', 'spreadsheet']), 'settings': rng.random() < 0.3,
                              'pics': [(u'Pictures/obj%d.png' % n, u'image/png', bytes([n, 1, 2]).hex())] if rng.random() < 0.5 else [],
                              'nested': rng.random() < 0.3, 'files': rng.random() < 0.4})
    for o in ps['objects']:
        # objects inside objects, 2 and 3 deep, under any number: each level a document kind of its own, a picture, files of its own
        if not o['nested'] and rng.random() < 0.35:
            o['chain'] = [{'num': rng.choice([1, 1, 2, 7, 10]), 'kind': rng.choice(['text', 'spreadsheet', 'chart']),
                           'pic': rng.random() < 0.7, 'file': rng.random() < 0.7} for _ in range(rng.choice([1, 1, 2]))]
    if ps['objects'] and rng.random() < 0.3:
        # any numbering, any name length: the folder name is what matters now
        for o, n in zip(ps['objects'], rng.sample([7, 2, 10, 100, 12345, 3], len(ps['objects']))):
            o['num'] = n
            o['pics'] = [(u'Pictures/obj%d.png' % n, u'image/png', bytes([n % 256, 1, 2]).hex())] if o['pics'] else []
    if special == 'no-mimetype-member':
        ps['mimetype'] = None
    elif special == 'root-differs':
        ps['root'] = pk.KINDS['spreadsheet' if kind == 'text' else 'text']
    elif special == 'no-root':
        ps['root'] = None
    elif special == 'list-reserved':
        ps['list_reserved'] = True
    elif special == 'picture-dir':
        ps['picdir'] = True
    elif special == 'many-objects':
        # 10-12 top-level objects ("Object 10/" sorts before "Object 2/"), alternating kinds, sometimes in permuted manifest order
        nums = list(range(1, rng.choice([10, 11, 12]) + 1))
        if rng.random() < 0.5:
            rng.shuffle(nums)
        ps['objects'] = [{'num': n, 'kind': 'text' if i % 2 == 0 else 'spreadsheet', 'settings': False,
                          'pics': [(u'Pictures/obj%d.png' % n, u'image/png', bytes([n, 1, 2]).hex())] if i % 3 == 0 else [], 'nested': False}
                         for i, n in enumerate(nums)]
        ps['shuffle'] = False
    return ps


def package_parts(ps):
    """-> (spec for pk.make_package, names of the settings.xml members that have children)"""
    import random
    members, man, nonempty = [], [], []
    def add(name, data, mt):
        members.append((name, data)); man.append((name, mt))
    if ps['root'] is not None:
        man.append((u'/', ps['root']))
    parts = pk.parts_of(ps['kind'], 0, ps['settings'] == 'full')
    if ps['settings'] == 'empty':
        parts['settings.xml'] = pk.new_real(ps['kind'], 0, False).settingsxml().encode('utf-8')
    if ps['settings'] == 'full':
        nonempty.append(u'settings.xml')
    for n in ('content.xml', 'styles.xml', 'meta.xml', 'settings.xml'):
        if n in parts and not (n == 'meta.xml' and ps.get('nometa')):
            add(n, parts[n], u'text/xml')
    for n, mt, hx in ps['pics']:
        add(n, bytes.fromhex(hx), mt)
    if ps['thumb'] is not None:
        if ps['thumbdir']:
            man.append((u'Thumbnails/', u''))
        add(u'Thumbnails/thumbnail.png', bytes.fromhex(ps['thumb']), u'image/png')
    for o in ps['objects']:
        F = u'Object %d/' % o['num']
        man.append((F, pk.KINDS[o['kind']]))
        op = pk.parts_of(o['kind'], 1000 + o['num'], o['settings'])
        for n in ('content.xml', 'styles.xml', 'settings.xml'):
            if n in op:
                add(F + n, op[n], u'text/xml')
        if o['settings']:
            nonempty.append(F + u'settings.xml')
        if o.get('files'):
            # other files of the sub-document (pk.own_files: own meta.xml, thumbnail, pictures, files named like top-level members ...)
            fs, ds = pk.own_files(F, 1000 + o['num'], o['kind'])
            for path, mt_, data in fs:
                add(path, data, mt_)
            man.extend(ds)
        for n, mt, hx in o['pics']:
            add(F + n, bytes.fromhex(hx), mt)
        G = F
        for lvl, co in enumerate(o.get('chain') or []):
            # F/Object a/ (depth 2), F/Object a/Object b/ (depth 3): parts with a marker of their own, a picture, other files
            G = G + u'Object %d/' % co['num']
            mk = 4000000 + 10 * o['num'] + lvl
            man.append((G, pk.KINDS[co['kind']]))
            cp = pk.parts_of(co['kind'], mk, False)
            for n in ('content.xml', 'styles.xml'):
                add(G + n, cp[n], u'text/xml')
            if co['pic']:
                add(G + u'Pictures/deep%d.png' % lvl, bytes([lvl, o['num'] % 256, 5]), u'image/png')
            if co['file']:
                add(G + u'extra.bin', bytes([lvl, o['num'] % 256, 6]), u'application/x-thing')
                add(G + u'ObjectReplacements/Object 1', bytes([lvl, o['num'] % 256, 7]), u'application/x-openoffice-gdimetafile')
                add(G + u'Configurations2/menubar/menubar.xml', bytes([60, lvl, 62]), u'')
                man.append((G + u'Configurations2/', u'application/vnd.sun.xml.ui.configuration'))
        if o['nested']:
            G = F + u'Object 1/'
            man.append((G, pk.KINDS['text']))
            np_ = pk.parts_of('text', 2000 + o['num'], False)
            for n in ('content.xml', 'styles.xml'):
                add(G + n, np_[n], u'text/xml')
            if o.get('files'):
                # nesting depth 2 and 3, each level with files of its own under the same relative names
                H = G + u'Object 3/'
                man.append((H, pk.KINDS['spreadsheet']))
                hp = pk.parts_of('spreadsheet', 3000 + o['num'], False)
                for n in ('content.xml', 'styles.xml'):
                    add(H + n, hp[n], u'text/xml')
                for FF, mkk, kk in ((G, 2000 + o['num'], 'text'), (H, 3000 + o['num'], 'spreadsheet')):
                    fs, ds = pk.own_files(FF, mkk, kk)
                    for path, mt_, data in fs:
                        add(path, data, mt_)
                    man.extend(ds)
    for n, mt, hx in ps['xfiles']:
        add(n, bytes.fromhex(hx), mt)
    for d in ps['xdirs']:
        man.append((d, u''))
    if ps.get('picdir'):
        # a directory below Pictures/ with its zip directory member: load() registers it as a zero-byte picture
        members.append((u'Pictures/sub/', b'')); man.append((u'Pictures/sub/', u''))
    if ps['list_reserved']:
        man.append((u'mimetype', u'text/plain'))
        man.append((u'META-INF/manifest.xml', u'text/xml'))
    if ps['shuffle']:
        random.Random(ps['seed']).shuffle(man)
    return {'mimetype': ps['mimetype'], 'manifest': man, 'members': members}, nonempty


# ------------------------------------------------------------------------------------------------ running a spec
class Ctx(object):
    def __init__(self):
        self.tmp = tempfile.mkdtemp(prefix='verif-c03-')
        self.nfile = 0
        self.nid = 5000
        self.refused = 0
        self.bad = []
    def close(self):
        shutil.rmtree(self.tmp, ignore_errors=True)


def apply_pics(ctx, m, pics):
    doc = m.real
    for p in pics:
        data = bytes.fromhex(p['data'])
        if p['how'] in ('file', 'addpicture-file'):
            ctx.nfile += 1
            if p.get('relpath'):
                # a file whose "extension" (text after the last '.') is not a normal path, e.g. 'd.//a'
                path = ctx.tmp + u'/' + p['relpath']
                os.makedirs(os.path.dirname(os.path.normpath(path)), exist_ok=True)
            else:
                path = os.path.join(ctx.tmp, u'pic%d%s' % (ctx.nfile, p['ext']))
            with open(path, 'wb') as f:
                f.write(data)
            if p['how'] == 'file':
                href = doc.addPictureFromFile(path, p['mt'])
            else:
                href = doc.addPicture(path, p['mt'])
            # "the media type given": the caller's, else what the platform table says for that file name, else ''
            mt = p['mt'] if p['mt'] is not None else (mimetypes.guess_type(path)[0] or u'')
            m.regs.append((href, 'F', path, mt)); m.files[path] = data
        elif p['how'] == 'string':
            href = doc.addPictureFromString(data, p['mt'])
            m.regs.append((href, 'I', data, p['mt']))
        else:
            href = doc.addPicture(p['name'], p['mt'], data)
            m.regs.append((href, 'I', data, p['mt']))


def build(ctx, spec, m=None):
    """run `spec` on the real library; `m` (mirror of an already loaded document) is extended, else created"""
    if m is None:
        id = ctx.nid; ctx.nid += 1
        if spec.get('bare'):
            # OpenDocument(mimetype, add_generator=False): empty office:meta, empty body, no styles, empty settings
            from odf.opendocument import OpenDocument
            m = pk.MDoc(id, spec['bare'], False)
            m.real = OpenDocument(spec['bare'], add_generator=False)
            m.marker = None
            if spec.get('mark'):
                from odf import style
                m.real.styles.addElement(style.Style(name=u'OBJMARK%dK' % id, family=u'paragraph'))
                m.real.fontfacedecls.addElement(style.FontFace(name=u'OBJMARK%dK' % id, fontfamily=u'Mark'))
                m.marker = id
        else:
            m = pk.MDoc(id, pk.KINDS[spec['kind']], spec['settings'])
            m.real = pk.new_real(spec['kind'], id, spec['settings'])
    apply_pics(ctx, m, spec['pics'])
    if spec.get('thumb') is not None:
        m.thumb = bytes.fromhex(spec['thumb'])
        m.real.addThumbnail(m.thumb)
    for ks in spec['kids']:
        k = build(ctx, ks)
        before = (list(m.real.childobjects), [x.real.folder for x in k.walk()])
        try:
            ref = m.real.addObject(k.real, ks.get('name'))
        except ValueError:
            # a name that is already taken: refused, and nothing may have changed
            ctx.refused += 1
            if (list(m.real.childobjects), [x.real.folder for x in k.walk()]) != before:
                ctx.bad.append(('addobject-refusal-not-atomic', 'addObject(%r) raised ValueError but left a trace' % (ks.get('name'),)))
            continue
        # the reference names the folder of THIS object: a reference handed out before (or the folder of an object the document
        # was loaded with) is in use - two objects in one folder are members written twice
        if ref in m.refs or ref in getattr(m, 'refs_in_use', ()):
            ctx.bad.append(('addobject-reference-already-in-use', 'addObject(%r) returned %r, the reference of another object of the same '
                            'document (handed out: %r, loaded with: %r)' % (ks.get('name'), ref, m.refs, sorted(getattr(m, 'refs_in_use', ())))))
        m.kids.append(k); m.refs.append(ref)
    return m


RESERVED_AT_ROOT = (u'meta.xml', u'mimetype', u'META-INF/manifest.xml', u'/', u'Thumbnails/', u'Thumbnails/thumbnail.png',
                    u'styles.xml', u'content.xml', u'settings.xml')


def reserved_extras(m):
    """decidable input class of KF-C03-4: the extras of this document that are named like a member save() generates for a package root"""
    return [fn for fn, _, _ in m.extras if fn in RESERVED_AT_ROOT]


def refresh_folders(top):
    """the `folder` attributes as they are now (attaching a document moves everything already attached to it)"""
    for x in top.walk():
        x.folder = x.real.folder


def mirror_of_loaded(doc, keys):
    """mirror of a document as load() left it (ids as the model's load assigns them), markers read from its parts"""
    m = pk.dump_real(doc, keys)
    for x in m.walk():
        ms = pk.markers_in(x.real.contentxml())
        x.marker = ms[0] if len(ms) == 1 else -1
    return m


def run_case(chk, drv, case, oracle_only=False):
    """returns the list of (sig, detail) the oracle reported"""
    ctx = Ctx()
    try:
        from odf.opendocument import load
        import io
        loaded = case.get('base') is not None
        top = None
        if loaded:
            pspec, nonempty = package_parts(case['base'])
            raw0 = pk.make_package(pspec)
            doc = load(io.BytesIO(raw0))
            top = mirror_of_loaded(doc, pk.dedup_keys(pspec['manifest']))
            arch0 = pk.read_archive(raw0)           # the package as it was handed to load()
            nregs0 = len(top.regs)
            # the object folders of the package as it was handed to load() (manifest through expat, members through zipfile)
            top.refs_in_use = set(u'./' + p_[:-1] for p_, _t in (arch0.manifest or [])
                                  if p_.endswith(u'/') and p_.count(u'/') == 1 and p_.startswith(u'Object ') and p_[7:-1].isdigit()
                                  and (p_ + u'content.xml') in arch0.names)
            if not oracle_only:
                ans = drv.ask(pk.load_request(pspec, nonempty))
                chk.corr()
                impl = 'ok ' + ' '.join(top.tokens())
                model = ans.split(' ; ')[0]
                if impl != model:
                    chk.corr_diff({'base': case['base']}, *(pk.diff_window(impl, model) + ('document state after load()',)))
            top = build(ctx, case['doc'], top)
        else:
            ctx.nid = 0
            top = build(ctx, case['doc'])
        refresh_folders(top)
        chk.count('addobject_refused_duplicate_name', ctx.refused)
        if abnormal_ext(case['doc']):
            chk.count('file_name_with_abnormal_tail')      # regression input of fix 31ca861, inside the model again
        bad = list(ctx.bad)

        vias = case.get('via') or ['fileobj', 'fileobj', 'fileobj']

        def save_and_check(what, sfx, node=None, via='fileobj'):
            node = node or top
            raw, warns = pk.save_real(node.real, via, ctx.tmp)
            chk.count('saved_via_' + via)
            arch = pk.read_archive(raw)
            files = {}
            marker_of = {}
            for x in node.walk():
                files.update(x.files); marker_of[x.id] = x.marker
            if not oracle_only:
                ans = drv.ask('save ' + ' '.join(node.tokens()))
                if not ans.startswith('ok'):
                    chk.corr(); chk.corr_diff(case, 'archive of %d members' % len(arch.members), ans, 'driver refused the document')
                else:
                    pk.compare_listing(chk, case, ans[3:], arch, files, marker_of, what)
            res = pk.oracle_c03(arch, node, loaded and node is top)
            if loaded and node is top:
                # the files the document was loaded with (extra members, files and pictures of its objects at any depth) are
                # files of its package at every save; paths registered anew through the API since the load are the caller's
                got = pk.oracle_carried(arch0, arch, skip=set(r[0] for r in top.regs[nregs0:]))
                chk.count('loaded_files_looked_up_in_saved_package', len(pk.carried_of(arch0)))
                res = res + got
            if node is not top and reserved_extras(node):
                # KF-C03-4: a sub-document that carries an extra named like a member every package root gets, saved on its own
                res = [('subdocument-with-reserved-extra-saved-on-its-own', d) if sig in (
                    'duplicate-member-name', 'manifest-duplicate-entry', 'manifest-lists-missing-file', 'manifest-omits-member',
                    'root-mediatype') else (sig, d) for sig, d in res]
            for sig, d in res:
                bad.append((sig if sig == 'subdocument-with-reserved-extra-saved-on-its-own' else sig + sfx, d))
            return arch

        arch = save_and_check('entry list + manifest of the saved package', '', via=vias[0])
        # any node of the object tree saved as the root of a package of its own (it stays attached: its folder is not "")
        subs = [x for x in top.walk() if x is not top]
        subs.sort(key=lambda x: (-len(x.kids), -len(x.regs), x.id))
        for x in subs[:3]:
            save_and_check('entry list + manifest of a sub-document saved on its own', '-of-subdocument-saved-on-its-own', node=x)
            chk.count('subdocument_saved_on_its_own'); chk.count('subdocument_saved_on_its_own_with_objects', int(bool(x.kids)))
        if case.get('again', True):
            # the same document saved a second time in the same process, then changed (new thumbnail, one more picture in the
            # top document and in its first object) and saved a third time: every save must stand on its own
            save_and_check('entry list + manifest of the SECOND save of the same document', '-on-second-save', via=vias[1])
            chk.count('saved_twice')
            top.thumb = b'THUMB-3'; top.real.addThumbnail(top.thumb)
            apply_pics(ctx, top, [{'how': 'string', 'data': '0303', 'mt': u'image/png'}])
            if top.kids:
                apply_pics(ctx, top.kids[0], [{'how': 'named', 'name': u'Pictures/third.png', 'data': '0304', 'mt': u'image/gif'}])
            arch = save_and_check('entry list + manifest of the save after changing thumbnail and pictures', '-on-third-save', via=vias[2])
        return bad, top, arch
    finally:
        ctx.close()


def abnormal_ext(spec):
    """input class of the former KF-C03-3 (repaired in 31ca861): some picture is registered by a file name whose tail from
    its last '.' is not a normalised relative path ('//', '/./', '/../' inside); only counted"""
    for p in spec['pics']:
        rp = p.get('relpath')
        if rp and '.' in rp:
            ext = rp[rp.rindex('.'):]
            if os.path.normpath('x' + ext) != 'x' + ext:
                return True
    return any(abnormal_ext(k) for k in spec['kids'])


def shape(spec, d=0):
    return ((spec.get('bare') or spec['kind'])[-12:], int(spec['settings']), tuple(p['how'][0] for p in spec['pics']), spec.get('thumb') is not None,
            tuple(shape(k, d + 1) for k in spec['kids']))


def depth(spec):
    return 1 + max([depth(k) for k in spec['kids']] or [0])


def gen_cases(chk, n):
    rng = chk.rng
    specials = ['no-mimetype-member', 'root-differs', 'no-root', 'list-reserved', 'picture-dir', 'many-objects']
    # fixed corner cases first: the failing cell of the old matrix, the known findings
    yield {'doc': {'kind': 'text', 'settings': False, 'pics': [], 'thumb': None, 'kids': [
        {'kind': 'spreadsheet', 'settings': True, 'pics': [{'how': 'string', 'data': '89504e47', 'mt': u'image/png'}], 'thumb': None, 'kids': [
            {'kind': 'text', 'settings': False, 'pics': [{'how': 'string', 'data': '01', 'mt': u'image/png'},
                                                         {'how': 'file', 'data': '02', 'mt': None, 'ext': '.png'}], 'thumb': None, 'kids': []}]}]}, 'base': None}
    for sp in specials:
        yield {'doc': {'kind': 'text', 'settings': False, 'pics': [], 'thumb': None, 'kids': []}, 'base': gen_package(rng, sp)}
    def tricky_pics(k):
        return [{'how': 'named', 'name': t.format(n=k), 'mt': u'image/png', 'data': ('%02x%02x' % (i, k))} for i, t in enumerate(TRICKY)]
    yield {'doc': {'kind': 'text', 'settings': False, 'thumb': None, 'pics': tricky_pics(1), 'kids': [
        {'kind': 'spreadsheet', 'settings': False, 'thumb': None, 'pics': tricky_pics(1), 'kids': [
            {'kind': 'text', 'settings': True, 'thumb': None, 'pics': tricky_pics(2), 'kids': []}]}]}, 'base': None}
    base = gen_package(rng)
    base['pics'] = [(t.format(n=5), u'image/gif', ('%02x' % i)) for i, t in enumerate(TRICKY[:17])]
    base['xfiles'] = [(n_, t_, '0a0b') for n_, t_ in EXTRA_FILES[:9]]
    yield {'doc': {'kind': base['kind'], 'settings': False, 'thumb': None, 'pics': tricky_pics(5)[:6], 'kids': [
        {'kind': 'text', 'settings': False, 'thumb': None, 'pics': tricky_pics(3), 'kids': []}]}, 'base': base}
    # documents made with add_generator=False: empty meta, empty settings, empty body, no styles - every media type, through
    # every entry point, first save first (the generator element only exists from the first save on)
    for i, mt in enumerate(pk.BARE_MTS):
        yield {'doc': {'kind': 'text', 'bare': mt, 'mark': i % 3 == 0, 'settings': False, 'thumb': None, 'kids': [],
                       'pics': [] if i % 2 else [{'how': 'string', 'data': '01', 'mt': u'image/png'}]},
               'base': None, 'via': [['fileobj', 'name', 'write'], ['name+suffix', 'write', 'fileobj'], ['write', 'fileobj', 'name+suffix'], ['name', 'name+suffix', 'write']][i % 4]}
    for i, k in enumerate(sorted(pk.KINDS)):
        yield {'doc': {'kind': k, 'settings': i % 2 == 0, 'thumb': None, 'kids': [{'kind': 'chart', 'bare': pk.BARE_MTS[i], 'mark': True,
               'settings': False, 'thumb': None, 'kids': [], 'pics': []}], 'pics': []}, 'base': None,
               'via': ['name+suffix', 'write', 'name']}
    # a loaded minimal package: content.xml and styles.xml only, no meta.xml (office:meta stays empty until the first save)
    mb = gen_package(rng); mb.update({'settings': 'none', 'pics': [], 'thumb': None, 'xfiles': [], 'xdirs': [], 'objects': [], 'nometa': True})
    yield {'doc': {'kind': mb['kind'], 'settings': False, 'thumb': None, 'pics': [], 'kids': []}, 'base': mb, 'via': ['write', 'name', 'fileobj']}
    nb = gen_package(rng)
    nb['objects'] = [{'num': 1, 'kind': 'text', 'settings': True, 'pics': [(u'Pictures/obj1.png', u'image/png', '010102')], 'nested': True, 'files': True},
                     {'num': 12, 'kind': 'spreadsheet', 'settings': False, 'pics': [], 'nested': True, 'files': True}]
    yield {'doc': {'kind': nb['kind'], 'settings': False, 'thumb': None, 'pics': [], 'kids': []}, 'base': nb}
    cb = gen_package(rng)
    cb['objects'] = [{'num': 1, 'kind': 'spreadsheet', 'settings': False, 'pics': [(u'Pictures/obj1.png', u'image/png', '010102')], 'nested': False, 'files': True,
                      'chain': [{'num': 1, 'kind': 'chart', 'pic': True, 'file': True}, {'num': 1, 'kind': 'text', 'pic': True, 'file': True}]},
                     {'num': 2, 'kind': 'text', 'settings': True, 'pics': [], 'nested': False, 'files': False,
                      'chain': [{'num': 7, 'kind': 'spreadsheet', 'pic': True, 'file': False}]},
                     {'num': 3, 'kind': 'text', 'settings': False, 'pics': [], 'nested': False, 'files': False,
                      'chain': [{'num': 2, 'kind': 'chart', 'pic': False, 'file': False}, {'num': 10, 'kind': 'chart', 'pic': False, 'file': True}]}]
    yield {'doc': {'kind': cb['kind'], 'settings': False, 'thumb': None, 'pics': [], 'kids': []}, 'base': cb, 'via': ['fileobj', 'write', 'name']}
    yield {'doc': {'kind': 'text', 'settings': False, 'thumb': None, 'kids': [],
                   'pics': [{'how': 'file', 'data': '616263', 'mt': None, 'ext': '', 'relpath': u'd.//a'}]}, 'base': None}
    # media types with parameters / upper case / suffixes / empty / long, through every registration call, in the document and in an object
    def param_pics(k):
        hows = ['string', 'file', 'addpicture-file', 'named']
        return [{'how': hows[(i + k) % 4], 'data': '%02x%02x' % (i, k), 'mt': t, 'ext': ['.svg', '.png', ''][i % 3], 'name': u'Pictures/mt%d-%d.bin' % (k, i)}
                for i, t in enumerate(PARAM_MTS)]
    for k in range(4):
        yield {'doc': {'kind': 'text', 'settings': False, 'thumb': None, 'pics': param_pics(k), 'kids': [
            {'kind': 'spreadsheet', 'settings': False, 'thumb': None, 'pics': param_pics(k + 1), 'kids': []}]}, 'base': None, 'again': k == 0}
    # explicit numbered object names in descending order / with gaps / equal to the next default name, then default names
    for i in range(60 if chk.tier == 'thorough' else 24):
        yield gen_numbered(rng, from_load=i % 3 == 2)
    # exhaustive matrix: picture kind x nesting depth of the object that owns it x thumbnail x settings x extras
    for how in ('file', 'addpicture-file', 'string', 'named'):
        for d in range(4):
            for thumb in (None, '0102'):
                for settings in (False, True):
                    for with_base in (False, True):
                        pic = {'how': how, 'data': '8950', 'mt': u'image/png', 'ext': '.png', 'name': u'Pictures/m.png'}
                        doc = {'kind': 'text', 'settings': settings, 'pics': [pic], 'thumb': None, 'kids': []}
                        for lvl in range(d):
                            doc = {'kind': 'spreadsheet' if lvl % 2 else 'text', 'settings': settings, 'pics': [dict(pic)], 'thumb': None, 'kids': [doc]}
                        doc['thumb'] = thumb
                        base = None
                        if with_base:
                            base = gen_package(chk.rng.__class__(d * 7 + len(how)))
                            doc['kind'] = base['kind']; doc['settings'] = False
                        yield {'doc': doc, 'base': base}
    for i in range(n):
        base = None
        if rng.random() < 0.3:
            base = gen_package(rng, rng.choice(specials) if rng.random() < 0.15 else None)
        doc = gen_doc(rng, 0, 3)
        if base is not None:
            doc['kind'] = base['kind']; doc['settings'] = False
        yield {'doc': doc, 'base': base, 'via': [rng.choice(['fileobj', 'fileobj', 'name', 'name+suffix', 'write']) for _ in range(3)]}


def run(chk, replay=None):
    chk.rule = ('seeded random document trees (depth <= 4 levels, <= 3 objects per level, 0-3 pictures per document drawn from '
                'addPictureFromFile / addPicture(file) / addPictureFromString / addPicture(name, type, bytes), thumbnail, settings on/off); '
                'explicit names and loaded member names include %XX escapes, blanks, + # ? & quotes < >, non-ASCII, case variants, a leading ./ and pairs differing only by such an encoding; '
                '30% start from load() of a hand-made package with extras, directories, pictures, objects (35% of them holding objects 2 and 3 deep with pictures and files of their own) and a shuffled manifest; every file of the loaded package that save() does not write afresh is looked up under its path in each of the three saved packages; '
                'plus the exhaustive matrix picture kind x owner depth 0..3 x thumbnail x settings x from-load (128 cases); every media type incl. templates made with add_generator=False (empty meta/settings/body/styles); saved through save(file object) / save(name) / save(name, addsuffix) / write(); each case saved three times; up to 3 sub-documents of each tree saved as a package of their own; '
                'one picture media type in four from a list with parameters (;charset=..., quoted ";"), upper case, +xml, empty, 1200 characters, XML metacharacters, non-ASCII; 24 (thorough: 60) documents whose objects get explicit numbered names (descending / gaps / equal to the next default; a third of them loaded from a package listing the folders in that order) and then default names; '
                'non-trivial = at least one embedded object or picture or extra')
    if replay is not None:
        # a failure seen in the FIRST save of a document is replayed after the documents the process saved before it
        for before in replay['input'].get('process_before') or []:
            run_case(chk, None, before, oracle_only=True)
        bad, top, arch = run_case(chk, None, replay['input'], oracle_only=True)
        print('replay: members=%r' % (arch.names,))
        print('replay: manifest=%r' % (arch.manifest,))
        for sig, d in bad:
            print('replay: %s: %s' % (sig, d))
        return 1 if any(sig == replay.get('signature') for sig, d in bad) or (bad and not replay.get('signature')) else 0
    chk.assumptions.append('zipfile: member names are taken verbatim (generated names contain no NUL; ZipFile.write() runs normpath over the name '
                           'of a by-file picture, which is "Pictures/<uuid><splitext ext>" and already normal)')
    chk.assumptions.append('uuid4 gives a fresh name on every call (hrefs of generated pictures are distinct); mimetypes.guess_type/guess_extension not modelled')
    chk.prove(modules=['OdfModel.Props.C03', 'OdfModel.Props.C03Xml', 'OdfModel.Props.C03XmlHist'], drivers=['drv_pkg'])
    drv = chk.driver('drv_pkg')
    n = 6000 if chk.tier == 'thorough' else 900

    recent = {}      # the last loaded and the last built document this process saved: the process history of the next case

    def sweep(cases, oracle_only=False):
        for case in cases:
            before = [recent[k] for k in sorted(recent)]
            bad, top, arch = run_case(chk, drv, case, oracle_only)
            recent['loaded' if case['base'] is not None else 'built'] = case
            docs = list(top.walk())
            npics = sum(len(x.regs) for x in docs)
            chk.case(json.dumps([shape(case['doc']), case['base'] and sorted(case['base'].items())], sort_keys=True, default=repr),
                     nontrivial=len(docs) > 1 or npics > 0 or bool(top.extras),
                     sample={'objects': len(docs), 'pictures': npics, 'members': arch.names[:12], 'from_load': case['base'] is not None})
            chk.count('documents'); chk.count('objects_total', len(docs) - 1); chk.count('pictures_total', npics)
            chk.count('depth_%d' % depth(case['doc']))
            if case['base'] is not None:
                chk.count('from_load'); chk.count('extras_total', len(top.extras))
            for x in docs:
                for _, k, _, _ in x.regs:
                    chk.count('pic_by_file' if k == 'F' else 'pic_by_bytes')
            if top.thumb is not None:
                chk.count('with_thumbnail')
            for sig, d in bad:
                if sig.endswith('-on-second-save') or sig.endswith('-on-third-save'):
                    chk.fail(sig, case, d)
                else:
                    chk.fail(sig, case, d, replay=dict(case, process_before=before))
            if len(chk.failures) >= 50:
                # the run has failed and no further failing input is recorded (common.fail keeps 50): stop here - a fault that makes
                # every save slower than the one before (state that grows from save to save) must not keep the check from answering
                chk.count('sweep_stopped_after_50_failing_inputs')
                break

    sweep(gen_cases(chk, n))
    chk.deep_search = lambda: sweep(gen_cases(chk, 2 * n), oracle_only=True)
    return chk.finish()

# -*- coding: utf-8 -*-
"""C11 - loading keeps style references right when content.xml and styles.xml reuse a style name.

translate:      harness/translate_styles.py (shared with C10) -> lean/OdfModel/Generated/StyleRefs.lean: the schema's
                style-reference attributes and what `_used_auto_styles` follows.  The hosts of every reference
                attribute (which elements may carry it below style:master-page / office:body) are read from the
                .rng here (`schema_hosts`), embedded documents cut off.
proof:          lean/OdfModel/Props/C11.lean about lean/OdfModel/StyleClash.lean (load order, rename to 'M'+name,
                rewrite of later text:style-name, one automatic-styles container, C10's selection on save)
correspondence: the package is flattened (expat, document order) and sent to drv_clash; the model's loaded
                document (names after rename, reference values after rewrite), the automatic styles it writes to
                each part and the definition every reference site resolves to (source / in memory / saved)
                are compared with the real load() + save()
oracle:         synthetic packages written with zipfile + hand-written XML; every definition carries a marker
                attribute (and a marker child); source and saved package are parsed with expat, the loaded
                document is walked; every reference site (body, master pages, inside automatic styles) is resolved
                in its own part: automatic styles of the part first, then common styles, first definition of the
                class (family / data style / list style / page layout) the (attribute, host element) asks for.
                A site that resolved before and dangles or resolves to another marker afterwards fails with
                sig=<kind>:<attribute>:<placement>[:noclash][+tag].  Independent of the model.
sessions:       the same judgement for every (sub)document of a history in ONE process: packages with embedded objects
                (Object <n>/content.xml + styles.xml, siblings, nested), a package whose load() raises (the manifest lists
                a member the archive does not hold) followed by ordinary ones, several packages loaded one after the other
                and all kept alive, saved in every order, documents built through the API in between.  Each document is
                judged on its own source parts; the model is driven through the session (`loadSession`, op `sess`).
"""
import io, os, re, json, zipfile
import xml.parsers.expat
import xml.etree.ElementTree as ET
from common import enc_str
import common
import translate_styles

NS = {
    'office': 'urn:oasis:names:tc:opendocument:xmlns:office:1.0',
    'style': 'urn:oasis:names:tc:opendocument:xmlns:style:1.0',
    'text': 'urn:oasis:names:tc:opendocument:xmlns:text:1.0',
    'table': 'urn:oasis:names:tc:opendocument:xmlns:table:1.0',
    'draw': 'urn:oasis:names:tc:opendocument:xmlns:drawing:1.0',
    'fo': 'urn:oasis:names:tc:opendocument:xmlns:xsl-fo-compatible:1.0',
    'xlink': 'http://www.w3.org/1999/xlink',
    'number': 'urn:oasis:names:tc:opendocument:xmlns:datastyle:1.0',
    'presentation': 'urn:oasis:names:tc:opendocument:xmlns:presentation:1.0',
    'svg': 'urn:oasis:names:tc:opendocument:xmlns:svg-compatible:1.0',
    'chart': 'urn:oasis:names:tc:opendocument:xmlns:chart:1.0',
    'dr3d': 'urn:oasis:names:tc:opendocument:xmlns:dr3d:1.0',
    'form': 'urn:oasis:names:tc:opendocument:xmlns:form:1.0',
    'db': 'urn:oasis:names:tc:opendocument:xmlns:database:1.0',
    'meta': 'urn:oasis:names:tc:opendocument:xmlns:meta:1.0',
    'config': 'urn:oasis:names:tc:opendocument:xmlns:config:1.0',
    'dc': 'http://purl.org/dc/elements/1.1/',
    'manifest': 'urn:oasis:names:tc:opendocument:xmlns:manifest:1.0',
    'c11': 'urn:verif:c11',
}
PREFIX = dict((u, p) for p, u in NS.items())
XMLNS = ' '.join('xmlns:%s="%s"' % (p, u) for p, u in sorted(NS.items()) if p != 'manifest')
MIME = 'application/vnd.oasis.opendocument.text'
XML_SPACE = re.compile(u'[ \t\r\n]+')


def Q(pname):
    p, _, l = pname.partition(':')
    return (NS[p], l)


def P(q):
    return '%s:%s' % (PREFIX.get(q[0], '{%s}' % q[0]), q[1])


STYLE_NAME = Q('style:name'); FAMILY = Q('style:family'); MARK = Q('c11:m'); SID = Q('c11:sid'); MARK_CHILD = Q('c11:mk')

# ------------------------------------------------------------------ kinds of automatic style
FAMILIES = ['paragraph', 'text', 'table', 'table-column', 'table-row', 'table-cell', 'graphic', 'presentation',
            'drawing-page', 'section', 'ruby', 'chart']
DATA_KINDS = ['number-style', 'currency-style', 'percentage-style', 'date-style', 'time-style', 'boolean-style', 'text-style']
# kind -> (element, family or None, resolution class)
KINDS = {}
for _f in FAMILIES:
    KINDS[_f] = ('style:style', _f, _f)
for _k in DATA_KINDS:
    KINDS[_k] = ('number:' + _k, None, 'data')
KINDS['list-style'] = ('text:list-style', None, 'list')
KINDS['page-layout'] = ('style:page-layout', None, 'page-layout')
KIND_ORDER = FAMILIES + DATA_KINDS + ['list-style', 'page-layout']
CLASSES = FAMILIES + ['data', 'list', 'page-layout']
CLASS_CODE = dict((c, i + 1) for i, c in enumerate(CLASSES))          # 0 = unknown class (never matches)
PROPS_CHILD = {'paragraph': 'style:paragraph-properties', 'text': 'style:text-properties', 'table': 'style:table-properties',
               'table-column': 'style:table-column-properties', 'table-row': 'style:table-row-properties',
               'table-cell': 'style:table-cell-properties', 'graphic': 'style:graphic-properties',
               'presentation': 'style:graphic-properties', 'drawing-page': 'style:drawing-page-properties',
               'section': 'style:section-properties', 'ruby': 'style:ruby-properties', 'chart': 'style:chart-properties'}


# ------------------------------------------------------------------ which class of style an (attribute, host) refers to
DRAWING_PAGE_HOSTS = ('draw:page', 'style:master-page', 'presentation:notes', 'style:handout-master')
SECTION_HOSTS = ('text:section', 'text:index-title', 'text:table-of-content', 'text:illustration-index', 'text:table-index',
                 'text:object-index', 'text:user-index', 'text:alphabetical-index', 'text:bibliography')
TABLE_HOSTS = {'table:table': 'table', 'table:background': 'table', 'table:table-column': 'table-column',
               'table:table-row': 'table-row', 'table:table-cell': 'table-cell', 'table:covered-table-cell': 'table-cell'}
NOT_AUTOMATIC = {
    # attributes whose target can never be an automatic style (so no clash between the parts can involve them)
    'draw:fill-gradient-name': 'draw:gradient lives in office:styles only',
    'draw:fill-hatch-name': 'draw:hatch lives in office:styles only',
    'draw:fill-image-name': 'draw:fill-image lives in office:styles only',
    'draw:marker-end': 'draw:marker lives in office:styles only',
    'draw:marker-start': 'draw:marker lives in office:styles only',
    'draw:opacity-name': 'draw:opacity lives in office:styles only',
    'draw:stroke-dash': 'draw:stroke-dash lives in office:styles only',
    'draw:stroke-dash-names': 'draw:stroke-dash lives in office:styles only',
    'draw:master-page-name': 'refers to a style:master-page',
    'style:master-page-name': 'refers to a style:master-page',
    'text:master-page-name': 'refers to a style:master-page',
    'presentation:presentation-page-layout-name': 'style:presentation-page-layout lives in office:styles only',
    'style:parent-style-name': 'the parent of a style is a common style',
    'style:next-style-name': 'the next style is a common style / a master page',
    'text:citation-style-name': 'text:notes-configuration lives in office:styles and names common styles',
    'text:citation-body-style-name': 'text:notes-configuration lives in office:styles and names common styles',
    'text:default-style-name': 'text:notes-configuration lives in office:styles and names common styles',
    'style:register-truth-ref-style-name': 'names a common paragraph style',
    'table:paragraph-style-name': 'table templates live in office:styles and name common styles',
}


def target_class(attr, host, owner_class=None):
    """the class of style a reference through `attr` on element `host` resolves in (ODF 1.2 part 1, 19.x);
    None = never an automatic style / unknown host"""
    if attr == 'text:style-name':
        if host in ('text:p', 'text:h') or host.endswith('-entry-template') or host == 'text:index-title-template':
            return 'paragraph'
        if host in ('text:list', 'text:numbered-paragraph'):
            return 'list'
        if host == 'text:ruby':
            return 'ruby'
        if host in SECTION_HOSTS:
            return 'section'
        if host.startswith('text:'):
            return 'text'       # span, a, ruby-text, index-entry-*, list-level-style-*, linenumbering-configuration ...
        return None
    if attr == 'text:cond-style-name':
        return 'paragraph'
    if attr == 'text:class-names':
        return 'paragraph' if host in ('text:p', 'text:h') else 'text'
    if attr in ('text:visited-style-name', 'text:main-entry-style-name', 'style:style-name', 'style:leader-text-style',
                'style:text-line-through-text-style'):
        return 'text'
    if attr == 'text:style-override' or attr == 'style:list-style-name':
        return 'list'
    if attr == 'draw:style-name':
        return 'drawing-page' if host in DRAWING_PAGE_HOSTS else 'graphic'
    if attr == 'draw:class-names':
        return 'graphic'
    if attr in ('draw:text-style-name', 'form:text-style-name'):
        return 'paragraph'
    if attr in ('presentation:style-name', 'presentation:class-names'):
        return 'presentation'
    if attr in ('style:data-style-name', 'style:percentage-data-style-name'):
        return 'data'
    if attr == 'style:apply-style-name':
        return owner_class
    if attr == 'style:page-layout-name':
        return 'page-layout'
    if attr == 'table:style-name':
        return TABLE_HOSTS.get(host)
    if attr == 'table:default-cell-style-name':
        return 'table-cell'
    if attr == 'chart:style-name':
        return 'chart'
    if attr == 'db:style-name':
        return 'table-column' if host == 'db:column' else 'table'
    if attr == 'db:default-row-style-name':
        return 'table-row'
    if attr == 'db:default-cell-style-name':
        return 'table-cell'
    if attr in ('style:parent-style-name', 'style:next-style-name') and host == 'style:style':
        return owner_class      # resolved among common styles only (placement `common`)
    return None


# reference sites inside an automatic style: (attribute, host, kind of the owning style)
STYLE_INTERNAL = [
    ('style:data-style-name', 'style:style', 'table-cell'),
    ('style:percentage-data-style-name', 'style:style', 'table-cell'),
    ('style:list-style-name', 'style:style', 'paragraph'),
    ('style:apply-style-name', 'style:map', 'number-style'),
    ('text:style-name', 'text:list-level-style-number', 'list-style'),
    ('text:style-name', 'text:list-level-style-bullet', 'list-style'),
    ('style:style-name', 'style:drop-cap', 'paragraph'),
    ('style:leader-text-style', 'style:tab-stop', 'paragraph'),
    ('style:text-line-through-text-style', 'style:text-properties', 'text'),
]
# how a master page / the body gets hold of an owning style of a given class (a reference that is itself not under test)
OWNER_REF = {'table-cell': ('table:style-name', 'table:table-cell'), 'paragraph': ('text:style-name', 'text:p'),
             'data': ('style:data-style-name', 'text:date'), 'list': ('text:style-name', 'text:list'),
             'text': ('text:style-name', 'text:span')}


# ------------------------------------------------------------------ the schema: hosts of every reference attribute
RNG = '{http://relaxng.org/ns/structure/1.0}'
CUT = set(['office:document', 'office:document-content', 'office:document-styles', 'office:document-meta',
           'office:document-settings', 'math:math'])


def schema_hosts(repo, refattrs):
    """{'master': {attr: [hosts]}, 'body': {...}}: the elements reachable from style:master-page / office:body in the
    ODF 1.2 schema (not entering embedded documents) that may carry each style-reference attribute"""
    path = os.path.join(repo, translate_styles.SCHEMA)
    root = ET.parse(path).getroot()
    defines = {}
    for d in root.iter(RNG + 'define'):
        defines.setdefault(d.get('name'), []).append(d)
    elems = list(root.iter(RNG + 'element'))

    def content(node, seen, kids, attrs):
        for c in node:
            if c.tag == RNG + 'ref':
                n = c.get('name')
                if n in seen:
                    continue
                seen.add(n)
                for d in defines.get(n, []):
                    content(d, seen, kids, attrs)
            elif c.tag == RNG + 'element':
                kids.append(c)
            elif c.tag == RNG + 'attribute':
                attrs.append(c)
            else:
                content(c, seen, kids, attrs)

    def names(e):
        if e.get('name'):
            return [e.get('name')]
        return [n.text.strip() for n in e.iter(RNG + 'name') if n.text]
    info = {}
    for e in elems:
        kids, attrs = [], []
        content(e, set(), kids, attrs)
        info[id(e)] = (kids, [a.get('name') for a in attrs if a.get('name')])
    out = {}
    for region, start in (('master', 'style:master-page'), ('body', 'office:body')):
        todo = [e for e in elems if start in names(e)]
        seen = set(); res = {}
        while todo:
            e = todo.pop()
            if id(e) in seen or set(names(e)) & CUT:
                continue
            seen.add(id(e))
            for a in info[id(e)][1]:
                if a in refattrs:
                    for n in names(e):
                        res.setdefault(a, set()).add(n)
            todo.extend(info[id(e)][0])
        out[region] = dict((a, sorted(h)) for a, h in res.items())
    return out


# ------------------------------------------------------------------ package spec -> XML (hand written, no odfpy)
def esc(s):
    return s.replace('&', '&amp;').replace('<', '&lt;').replace('"', '&quot;')


def site(sid, attr, host, name):
    return {'sid': sid, 'attr': attr, 'host': host, 'name': name}


def sdef(kind, name, marker, refs=(), mm='attr'):
    """mm = how the definition can be told from another one of the same name:
    'attr' marker attribute and marker child, 'attronly' attribute and no child at all, 'child' the start tag carries
    nothing but style:name / style:family and the marker sits on a property child, 'none' no attribute and no
    child (at most one such definition per package: it reads as the marker NOCHILD)"""
    return {'kind': kind, 'name': name, 'm': marker, 'refs': list(refs), 'mm': mm}


# (content.xml definition, styles.xml definition): how the two colliding definitions differ
MARKER_MODES = [('attr', 'attr'), ('child', 'child'), ('none', 'child'), ('child', 'none'), ('attronly', 'attronly'),
                ('attronly', 'child')]


def empty_spec():
    return {'cauto': [], 'body': [], 'common': [], 'sauto': [], 'master': []}


INLINE = ('text:span', 'text:a', 'text:ruby', 'office:annotation', 'text:alphabetical-index-mark', 'text:meta-field')
WRAP = {   # host -> (open, close) of the elements put around it (below office:text / style:header)
    'text:ruby-text': ('<text:p><text:ruby><text:ruby-base>b</text:ruby-base>', '</text:ruby></text:p>'),
    'text:list-item': ('<text:list>', '</text:list>'),
    'table:table-column': ('<table:table table:name="t">', '<table:table-row><table:table-cell/></table:table-row></table:table>'),
    'table:table-row': ('<table:table table:name="t"><table:table-column/>', '</table:table>'),
    'table:table-cell': ('<table:table table:name="t"><table:table-column/><table:table-row>', '</table:table-row></table:table>'),
    'table:covered-table-cell': ('<table:table table:name="t"><table:table-column/><table:table-row><table:table-cell/>', '</table:table-row></table:table>'),
    'text:index-title': ('<text:table-of-content text:name="i"><text:index-body>', '</text:index-body></text:table-of-content>'),
    'text:alphabetical-index-source': ('<text:alphabetical-index text:name="i">', '<text:index-body/></text:alphabetical-index>'),
    'text:index-title-template': ('<text:table-of-content text:name="i"><text:table-of-content-source>', '</text:table-of-content-source><text:index-body/></text:table-of-content>'),
    'form:column': ('<office:forms><form:form><form:grid>', '</form:grid></form:form></office:forms>'),
    'draw:page-thumbnail': ('', ''),
    'draw:page': ('', ''),
}


def wrap_of(host):
    if host in WRAP:
        return WRAP[host]
    if host.endswith('-entry-template'):
        idx = host[:-len('-entry-template')]
        return ('<%s text:name="i"><%s-source>' % (idx, idx), '</%s-source><text:index-body/></%s>' % (idx, idx))
    if host.startswith('text:index-entry-'):
        return ('<text:table-of-content text:name="i"><text:table-of-content-source><text:table-of-content-entry-template text:outline-level="1">',
                '</text:table-of-content-entry-template></text:table-of-content-source><text:index-body/></text:table-of-content>')
    if host.startswith('dr3d:') and host != 'dr3d:scene':
        return ('<text:p><dr3d:scene>', '</dr3d:scene></text:p>')
    if host.startswith('chart:') and host != 'chart:chart':
        return ('<chart:chart>', '</chart:chart>')
    if host.startswith('db:'):
        return ('<db:data-source>', '</db:data-source>')
    if host in INLINE or host.startswith('draw:') or host.startswith('dr3d:') or \
            (host.startswith('text:') and host not in ('text:p', 'text:h', 'text:list', 'text:section', 'text:numbered-paragraph')
             and host not in SECTION_HOSTS):
        return ('<text:p>', '</text:p>')
    return ('', '')


def site_xml(sites):
    """sites on the same sid share one element"""
    out = []
    done = set()
    for i, s in enumerate(sites):
        if i in done:
            continue
        same = [j for j in range(i, len(sites)) if sites[j]['sid'] == s['sid'] and sites[j]['host'] == s['host']]
        done.update(same)
        attrs = ''.join(' %s="%s"' % (sites[j]['attr'], esc(sites[j]['name'])) for j in same)
        o, c = wrap_of(s['host'])
        inner = 'x' if (s['host'] in ('text:p', 'text:h', 'text:span', 'text:a', 'text:ruby-text') or s['host'] in INLINE) else ''
        out.append('%s<%s c11:sid="%s"%s>%s</%s>%s' % (o, s['host'], s['sid'], attrs, inner, s['host'], c))
    return ''.join(out)


def def_xml(d):
    el, fam, cls = KINDS[d['kind']]
    own = [r for r in d['refs'] if r['host'] == el]
    kids = [r for r in d['refs'] if r['host'] != el]
    a = ' style:name="%s"' % esc(d['name'])
    if fam:
        a += ' style:family="%s"' % fam
    mm = d.get('mm', 'attr')
    if mm in ('attr', 'attronly'):
        a += ' c11:m="%s"' % d['m']
    if own:
        a += ' c11:sid="%s"' % own[0]['sid']
        a += ''.join(' %s="%s"' % (r['attr'], esc(r['name'])) for r in own)
    if mm not in ('attr', 'child'):
        inner = ''
    elif fam:
        inner = '<%s c11:mk="%s"/>' % (PROPS_CHILD[fam], d['m'])
    elif cls == 'data':
        inner = '<number:text c11:mk="%s">%s</number:text>' % (d['m'], d['m'])
    elif cls == 'list':
        inner = '<text:list-level-style-bullet text:level="10" text:bullet-char="-" c11:mk="%s"/>' % d['m']
    else:
        inner = '<style:page-layout-properties c11:mk="%s"/>' % d['m']
    for r in kids:
        extra = ''
        if r['host'].startswith('text:list-level-style-'):
            extra = ' text:level="1"' + (' text:bullet-char="*"' if r['host'].endswith('bullet') else '')
        if r['host'] == 'style:map':
            extra = ' style:condition="value()&gt;=0"'
        kid = '<%s c11:sid="%s" %s="%s"%s/>' % (r['host'], r['sid'], r['attr'], esc(r['name']), extra)
        if r['host'] in ('style:drop-cap', 'style:tab-stop'):
            kid = '<style:paragraph-properties>%s%s%s</style:paragraph-properties>' % (
                '<style:tab-stops>' if r['host'] == 'style:tab-stop' else '', kid,
                '</style:tab-stops>' if r['host'] == 'style:tab-stop' else '')
        inner += kid
    return '<%s%s>%s</%s>' % (el, a, inner, el)


def master_xml(sites):
    """one style:master-page per site that sits on the master page itself (or on its presentation:notes);
    everything else goes into the header of the first one"""
    own = [s for s in sites if s['host'] in ('style:master-page', 'presentation:notes', 'draw:page-thumbnail')]
    rest = [s for s in sites if s not in own]
    pages = []
    sids = []
    for s in own:
        if s['sid'] not in sids:
            sids.append(s['sid'])
    for sid in sids or [None]:
        mine = [s for s in own if s['sid'] == sid]
        mp = [s for s in mine if s['host'] == 'style:master-page']
        a = ' style:name="%s"' % ('Standard' if not pages else 'Master%d' % len(pages))
        if mp:
            a += ' c11:sid="%s"' % sid + ''.join(' %s="%s"' % (s['attr'], esc(s['name'])) for s in mp)
        inner = ''
        if not pages and rest:
            inner += '<style:header>%s</style:header>' % site_xml(rest)
        n_notes = [s for s in mine if s['host'] == 'presentation:notes']
        n_thumb = [s for s in mine if s['host'] == 'draw:page-thumbnail']
        if n_notes or n_thumb:
            na = ''
            if n_notes:
                na = ' c11:sid="%s"' % sid + ''.join(' %s="%s"' % (s['attr'], esc(s['name'])) for s in n_notes)
            inner += '<presentation:notes%s>%s</presentation:notes>' % (na, site_xml(n_thumb))
        pages.append('<style:master-page%s>%s</style:master-page>' % (a, inner))
    return ''.join(pages)


def frames_xml(folders):
    """the frames through which a document shows its embedded objects (none for an ordinary package)"""
    return ''.join('<text:p><draw:frame svg:width="5cm" svg:height="2cm"><draw:object xlink:href="./%s" xlink:type="simple" '
                   'xlink:show="embed" xlink:actuate="onLoad"/></draw:frame></text:p>' % esc(f) for f in folders)


def build_parts(spec):
    content = ('<?xml version="1.0" encoding="UTF-8"?>\n<office:document-content %s office:version="1.2">'
               '<office:scripts/><office:font-face-decls/><office:automatic-styles>%s</office:automatic-styles>'
               '<office:body><office:text>%s</office:text></office:body></office:document-content>'
               % (XMLNS, ''.join(def_xml(d) for d in spec['cauto']), site_xml(spec['body']) + frames_xml(spec.get('frames', ()))))
    styles = ('<?xml version="1.0" encoding="UTF-8"?>\n<office:document-styles %s office:version="1.2">'
              '<office:font-face-decls/><office:styles>%s</office:styles><office:automatic-styles>%s</office:automatic-styles>'
              '<office:master-styles>%s</office:master-styles></office:document-styles>'
              % (XMLNS, ''.join(def_xml(d) for d in spec['common']), ''.join(def_xml(d) for d in spec['sauto']),
                 master_xml(spec['master'])))
    return content.encode('utf-8'), styles.encode('utf-8')


# how the package lists and stores its parts (office suites differ): (order of the manifest entries, order of the zip members)
LAYOUTS = [
    (['/', 'content.xml', 'styles.xml'], ['content.xml', 'styles.xml']),
    (['/', 'styles.xml', 'content.xml'], ['content.xml', 'styles.xml']),
    (['/', 'content.xml', 'styles.xml'], ['styles.xml', 'content.xml']),
    (['/', 'styles.xml', 'content.xml'], ['styles.xml', 'content.xml']),
    (['/', 'styles.xml', 'meta.xml', 'settings.xml', 'content.xml'], ['meta.xml', 'styles.xml', 'settings.xml', 'content.xml']),
    (['/', 'content.xml', 'settings.xml', 'meta.xml', 'styles.xml'], ['styles.xml', 'content.xml', 'settings.xml', 'meta.xml']),
    (['styles.xml', 'content.xml', '/'], ['content.xml', 'styles.xml']),
    (['settings.xml', 'styles.xml', 'content.xml', 'meta.xml', '/'], ['settings.xml', 'styles.xml', 'meta.xml', 'content.xml']),
]
META_XML = ('<?xml version="1.0" encoding="UTF-8"?>\n<office:document-meta %s office:version="1.2"><office:meta>'
            '<meta:generator>c11</meta:generator></office:meta></office:document-meta>' % XMLNS).encode('utf-8')
SETTINGS_XML = ('<?xml version="1.0" encoding="UTF-8"?>\n<office:document-settings %s office:version="1.2"><office:settings/>'
                '</office:document-settings>' % XMLNS).encode('utf-8')


def build_package(spec):
    content, styles = build_parts(spec)
    morder, zorder = LAYOUTS[spec.get('layout', 0)]
    entry = {'/': '<manifest:file-entry manifest:full-path="/" manifest:version="1.2" manifest:media-type="%s"/>' % MIME}
    for n in ('content.xml', 'styles.xml', 'meta.xml', 'settings.xml'):
        entry[n] = '<manifest:file-entry manifest:full-path="%s" manifest:media-type="text/xml"/>' % n
    manifest = ('<?xml version="1.0" encoding="UTF-8"?>\n<manifest:manifest xmlns:manifest="%s" manifest:version="1.2">%s'
                '</manifest:manifest>' % (NS['manifest'], ''.join(entry[n] for n in morder))).encode('utf-8')
    data = {'content.xml': content, 'styles.xml': styles, 'meta.xml': META_XML, 'settings.xml': SETTINGS_XML}
    buf = io.BytesIO()
    z = zipfile.ZipFile(buf, 'w')
    z.writestr(zipfile.ZipInfo('mimetype'), MIME.encode('ascii'))
    late = spec.get('layout', 0) % 2 == 1          # the manifest member first or last in the archive
    if not late:
        z.writestr('META-INF/manifest.xml', manifest, zipfile.ZIP_DEFLATED)
    for n in zorder:
        z.writestr(n, data[n], zipfile.ZIP_DEFLATED)
    if late:
        z.writestr('META-INF/manifest.xml', manifest, zipfile.ZIP_DEFLATED)
    z.close()
    return buf.getvalue(), content, styles


# ------------------------------------------------------------------ neutral trees: (qname, attrs dict, kids list)
def parse_tree(data):
    p = xml.parsers.expat.ParserCreate(namespace_separator='\x01')
    stack = [(None, {}, [])]

    def q(name):
        if '\x01' in name:
            ns, l = name.split('\x01', 1)
            return (ns, l)
        return (u'', name)

    def start(name, attrs):
        stack.append((q(name), dict((q(k), v) for k, v in attrs.items()), []))

    def end(name):
        e = stack.pop()
        stack[-1][2].append(e)
    p.StartElementHandler = start; p.EndElementHandler = end
    p.Parse(data, True)
    return stack[0][2][0]


def mem_tree(n):
    return (tuple(n.qname), dict(((k[0], k[1]), u'%s' % (v,)) for k, v in n.attributes.items()),
            [mem_tree(c) for c in n.childNodes if c.nodeType == 1])


def child(tree, pname):
    q = Q(pname)
    for k in tree[2]:
        if k[0] == q:
            return k
    return (q, {}, [])


def walk(tree):
    yield tree
    for k in tree[2]:
        for x in walk(k):
            yield x


class View(object):
    """the five containers of a package (or of a loaded document)"""
    def __init__(self, cauto, body, common, sauto, master):
        self.cauto, self.body, self.common, self.sauto, self.master = cauto, body, common, sauto, master


def view_of_parts(content, styles):
    c = parse_tree(content); s = parse_tree(styles)
    return View(child(c, 'office:automatic-styles')[2], child(c, 'office:body'),
                child(s, 'office:styles')[2], child(s, 'office:automatic-styles')[2], child(s, 'office:master-styles'))


def view_of_doc(doc):
    """the loaded document: ONE automatic-styles container serves both the body and the master pages"""
    auto = mem_tree(doc.automaticstyles)[2]
    return View(auto, mem_tree(doc.body), mem_tree(doc.styles)[2], auto, mem_tree(doc.masterstyles))


def view_of_zip(data, folder=''):
    z = zipfile.ZipFile(io.BytesIO(data))
    return view_of_parts(z.read(folder + 'content.xml'), z.read(folder + 'styles.xml'))


def marker_of(t):
    """which definition this is: the marker attribute, else the marker on a (property) child, else NOCHILD"""
    if t is None:
        return None
    if MARK in t[1]:
        return t[1][MARK]
    for e in walk(t):
        if MARK_CHILD in e[1]:
            return e[1][MARK_CHILD]
    return 'NOCHILD'


def def_class(t):
    pn = P(t[0])
    if pn == 'style:style':
        return t[1].get(FAMILY, '?')
    if pn.startswith('number:') and pn.endswith('-style'):
        return 'data'
    if pn == 'text:list-style':
        return 'list'
    if pn == 'style:page-layout':
        return 'page-layout'
    return pn


def def_kind(t):
    pn = P(t[0])
    if pn == 'style:style':
        return t[1].get(FAMILY, '?')
    return pn.split(':', 1)[1]


def sig_kind(t):
    """the kind as it appears in a finding signature: the family, or data-style / list-style / page-layout"""
    c = def_class(t)
    return {'data': 'data-style', 'list': 'list-style'}.get(c, c)


def resolve(autos, common, name, cls):
    """ODF: the automatic styles of the part a reference sits in come first, then the common styles; within a
    container the first definition of the wanted class with that style:name"""
    for pool in (autos, common):
        for t in pool:
            if t[1].get(STYLE_NAME) == name and def_class(t) == cls:
                return t
    return None


def sites_of(view, T):
    """every reference site: key -> record.  key = (region, sid, attr, token index)"""
    schema = T['c11_schema']; listy = T['c11_listy']
    out = {}

    def scan(tree, region, autos, common, owner):
        for e in walk(tree):
            sid = e[1].get(SID)
            for a, v in sorted(e[1].items()):
                pa = P(a)
                if pa not in schema or not v:
                    continue
                toks = [x for x in XML_SPACE.split(v) if x] if pa in listy else [v]
                for i, name in enumerate(toks):
                    cls = target_class(pa, P(e[0]), def_class(owner) if owner is not None else None)
                    pools = ([], common) if (region == 'common' or pa in ('style:parent-style-name', 'style:next-style-name')) else (autos, common)
                    tgt = resolve(pools[0], pools[1], name, cls) if cls else None
                    out[(region, sid, pa, i)] = {'attr': pa, 'host': P(e[0]), 'name': name, 'cls': cls, 'target': tgt,
                                                  'owner': owner, 'region': region, 'value': v}
    scan(view.body, 'body', view.cauto, view.common, None)
    scan(view.master, 'master', view.sauto, view.common, None)
    for d in view.cauto:
        scan(d, 'cauto', view.cauto, view.common, d)
    for d in view.sauto:
        scan(d, 'sauto', view.sauto, view.common, d)
    for d in view.common:
        scan(d, 'common', [], view.common, d)
    return out


def mconfig(src, n):
    """the source package itself uses names of the form 'M'+X next to X (an office suite calls the automatic styles of
    its master pages MP1, MT1, ...): which of X, MX, MMX, ... exist in content.xml, which in styles.xml and in which
    order, and which one the reference names.  '' if the name has no such relatives."""
    cn = [t[1].get(STYLE_NAME) or u'' for t in src.cauto]
    sn = [t[1].get(STYLE_NAME) or u'' for t in src.sauto]
    known = set(cn + sn + [t[1].get(STYLE_NAME) or u'' for t in src.common])
    base = n
    while base.startswith(u'M') and base[1:] in known:
        base = base[1:]

    def exp(x):
        k = 0
        while x != base and x.startswith(u'M'):
            x = x[1:]; k += 1
        return k if x == base else None
    ce = sorted(e for e in map(exp, cn) if e is not None)
    se = [e for e in map(exp, sn) if e is not None]
    if not [e for e in ce + se if e > 0]:
        return ''
    return '+m[c%s;s%s;n%d]' % ('.'.join(map(str, ce)), '.'.join(map(str, se)), exp(n))


def index_of(pool, t):
    for i, x in enumerate(pool):
        if x is t:
            return i
    return -1


# what is done with the loaded document: the property speaks of ANY package saved from it
SAVE_PLANS = [['save'], ['save', 'save'], ['save', 'save', 'save'], ['save', 'edit', 'save'], ['edit', 'save', 'save']]


def unrelated_edit(doc):
    """append, move and remove nodes that have nothing to do with styles (through the library: this is the use under test)"""
    from odf.element import Element
    top = doc.body.firstChild if doc.body.firstChild is not None else doc.body
    a = Element(qname=Q('text:p'), check_grammar=False); a.addText(u'one', check_grammar=False)
    b = Element(qname=Q('text:p'), check_grammar=False); b.addText(u'two', check_grammar=False)
    top.addElement(a, check_grammar=False)
    top.addElement(b, check_grammar=False)
    top.removeChild(a)
    top.insertBefore(b, top.firstChild)
    top.removeChild(b)
    top.addElement(a, check_grammar=False)


def oracle(spec, T, loader):
    """returns (failures, stats, trip); failures = [(signature, detail)]; every package saved from the loaded document
    (spec['saves'] picks a SAVE_PLANS entry) and the document before each save are judged against the source"""
    data, content, styles = build_package(spec)
    src = view_of_parts(content, styles)
    before = sites_of(src, T)
    doc = loader(io.BytesIO(data))
    rounds = []
    for step in SAVE_PLANS[spec.get('saves', 0)]:
        if step == 'edit':
            unrelated_edit(doc)
            continue
        mv = view_of_doc(doc)
        fix = dict(doc._styles_ooo_fix)
        out = io.BytesIO(); doc.save(out)
        saved = view_of_zip(out.getvalue())
        rounds.append({'mv': mv, 'fix': fix, 'mem': sites_of(mv, T), 'saved': saved, 'after': sites_of(saved, T)})
    rounds[-1]['mem_end'] = sites_of(view_of_doc(doc), T)
    fails, stats = judge(src, before, rounds, rounds[-1]['mem_end'], T, spec.get('tag'))
    return fails, stats, (src, doc, rounds)


def judge(src, before, rounds, mem_end, T, tag, label=''):
    """the property on one (sub)document: `before` = the reference sites of its source parts, `rounds` = the document in
    memory before each save and the parts each save wrote for it, `mem_end` = the document in memory at the very end"""
    cnames = set(t[1].get(STYLE_NAME) for t in src.cauto)
    snames = set(t[1].get(STYLE_NAME) for t in src.sauto)
    fails = []
    stats = {'sites': 0, 'resolved_before': 0, 'preserved_saved': 0, 'preserved_mem': 0, 'clash_sites': 0, 'owner_not_written': 0,
             'packages_saved': len(rounds)}
    for key in sorted(before, key=repr):
        b = before[key]
        stats['sites'] += 1
        if b['target'] is None:
            continue
        stats['resolved_before'] += 1
        m = marker_of(b['target'])
        region = key[0]
        placement = region
        if region in ('cauto', 'sauto'):
            pool = src.cauto if region == 'cauto' else src.sauto
            io_, it = index_of(pool, b['owner']), index_of(pool, b['target'])
            if it >= 0:
                placement += '-before' if io_ < it else '-after'
        clash = b['name'] in cnames and b['name'] in snames
        if clash:
            stats['clash_sites'] += 1
        sig0 = '%s:%s:%s%s%s%s' % (sig_kind(b['target']), b['attr'], placement, '' if clash else ':noclash',
                                   mconfig(src, b['name']), ('+' + tag) if tag else '')
        views = []
        for k, rd in enumerate(rounds):
            views.append((label + 'loaded document before save #%d' % (k + 1), rd['mem'], False))
            views.append((label + 'package of save #%d' % (k + 1), rd['after'], True))
        views.append((label + 'loaded document after save #%d' % len(rounds), mem_end, False))
        for where, res, is_pkg in views:
            r = res.get(key)
            sig = sig0
            if b['attr'] in T['c11_listy'] and r is not None and r['value'] != b['value'] and r['value'] == u' '.join(b['value']):
                # the value itself was changed by the attribute converter (cnv_NCNames before d63f896), clash or not: never a known finding
                sig = 'respaced:%s' % b['attr']
            if r is None and not is_pkg and region in ('cauto', 'sauto'):
                # in memory there is one container: the owner is found under either region name
                r = res.get(('cauto' if region == 'sauto' else 'sauto',) + key[1:])
            if r is None:
                if region in ('body', 'master', 'common') or not is_pkg:
                    fails.append((sig, '%s: reference site %s %s="%s" is gone' % (where, key[1], b['attr'], b['name'])))
                else:
                    stats['owner_not_written'] += 1     # an unused automatic style is not written: its references went with it
                continue
            m2 = marker_of(r['target'])
            if m2 == m:
                stats['preserved_saved' if is_pkg else 'preserved_mem'] += 1
            else:
                fails.append((sig, '%s: <%s %s="%s"> (site %s, %s) resolved to the %s marked %s in the source, now %s'
                              % (where, b['host'], b['attr'], r['name'], key[1], region, def_kind(b['target']), m,
                                 ('to the one marked %s' % m2) if m2 is not None else
                                 ('dangles (value "%s")' % r['name']))))
    return fails, stats


# ------------------------------------------------------------------ the matrix
COLLIDING_NAME = {'paragraph': 'P1', 'text': 'T1', 'table': 'Table1', 'table-column': 'Table1.A', 'table-row': 'Table1.1',
                  'table-cell': 'ce1', 'graphic': 'gr1', 'presentation': 'pr1', 'drawing-page': 'dp1', 'section': 'Sect1',
                  'ruby': 'Ru1', 'chart': 'ch1', 'number-style': 'N0', 'currency-style': 'N104', 'percentage-style': 'N11',
                  'date-style': 'N37', 'time-style': 'N41', 'boolean-style': 'N99', 'text-style': 'N100',
                  'list-style': 'L1', 'page-layout': 'pm1'}


def schema_tables(T):
    """prefixed names of the schema's style-reference attributes, and the list-typed ones"""
    T['c11_schema'] = set('%s:%s' % T['names'][k] for k in T['schema'])
    T['c11_listy'] = set('%s:%s' % T['names'][k] for k in T['listTyped'])
    T['c11_code'] = dict(('%s:%s' % T['names'][k], c) for k, c in T['codes'].items())
    return T


def controls(spec, attr, host, kind, regions):
    """non-colliding styles referenced in the ordinary way (text:style-name on text:p) and through the attribute
    under test: these must survive in every package"""
    spec['cauto'].append(sdef('paragraph', 'CtlC', 'CC'))
    spec['sauto'].append(sdef('paragraph', 'CtlS', 'CS'))
    spec['body'].append(site('cb', 'text:style-name', 'text:p', 'CtlC'))
    spec['master'].append(site('cm', 'text:style-name', 'text:p', 'CtlS'))
    if attr is not None:
        if 'body' in regions:
            spec['cauto'].append(sdef(kind, 'Uniq1', 'UC'))
            spec['body'].append(site('ub', attr, host, 'Uniq1'))
        if 'master' in regions:
            spec['sauto'].append(sdef(kind, 'Uniq2', 'US'))
            spec['master'].append(site('um', attr, host, 'Uniq2'))


def direct_cells(H):
    """kind x (attribute, host) of the matching class x {master, body, both, neither}"""
    pairs = {}
    for region in ('master', 'body'):
        for attr, hosts in H[region].items():
            for host in hosts:
                pairs.setdefault((attr, host), set()).add(region)
    nmode = [0]; nlay = [0]
    for (attr, host) in sorted(pairs):
        cls = target_class(attr, host)
        if cls is None:
            continue
        regions = pairs[(attr, host)]
        for kind in KIND_ORDER:
            if KINDS[kind][2] != cls:
                continue
            for placement in ('master', 'body', 'both', 'neither'):
                if placement in ('master', 'both') and 'master' not in regions:
                    continue
                if placement in ('body', 'both') and 'body' not in regions:
                    continue
                # how the two definitions differ (marker attribute / children only / one of them childless):
                # every way for text:style-name (the cells that hold), one way per cell, cycling, elsewhere
                nmode[0] += 1
                modes = MARKER_MODES if attr == 'text:style-name' else [MARKER_MODES[nmode[0] % len(MARKER_MODES)]]
                for mc, ms in modes:
                    name = COLLIDING_NAME[kind]
                    spec = empty_spec()
                    nlay[0] += 1
                    spec['layout'] = nlay[0] % len(LAYOUTS)
                    spec['cauto'].append(sdef(kind, name, 'A', mm=mc))
                    spec['sauto'].append(sdef(kind, name, 'B', mm=ms))
                    controls(spec, attr, host, kind, regions)
                    if placement in ('body', 'both'):
                        spec['body'].append(site('b1', attr, host, name))
                    if placement in ('master', 'both'):
                        spec['master'].append(site('m1', attr, host, name))
                    yield spec, {'block': 'direct', 'kind': kind, 'attr': attr, 'host': host, 'placement': placement,
                                 'differ': '%s/%s' % (mc, ms), 'layout': spec['layout']}


def internal_cells():
    """a reference inside an automatic style (which is itself used), before / after the colliding definition"""
    nint = [0]
    for attr, host, okind in STYLE_INTERNAL:
        ocls = KINDS[okind][2]
        cls = target_class(attr, host, ocls)
        for kind in KIND_ORDER:
            if KINDS[kind][2] != cls:
                continue
            name = COLLIDING_NAME[kind]
            for part in ('sauto', 'cauto'):
                for order in ('before', 'after'):
                    spec = empty_spec()
                    nint[0] += 1
                    mc, ms = MARKER_MODES[nint[0] % len(MARKER_MODES)]
                    a, b = sdef(kind, name, 'A', mm=mc), sdef(kind, name, 'B', mm=ms)
                    owner = sdef(okind, 'Own1', 'O', [site('r1', attr, host, name)])
                    spec['cauto'].append(a); spec['sauto'].append(b)
                    lst = spec[part]
                    if order == 'before':
                        lst.insert(0, owner)
                    else:
                        lst.append(owner)
                    controls(spec, None, None, None, ())
                    oattr, ohost = OWNER_REF[ocls]
                    spec['body' if part == 'cauto' else 'master'].append(site('o1', oattr, ohost, 'Own1'))
                    yield spec, {'block': 'internal', 'kind': kind, 'attr': attr, 'host': host, 'placement': '%s-%s' % (part, order),
                                 'differ': '%s/%s' % (mc, ms)}


def mname_spec(X, kind, host, cextra, sextra, order):
    spec = empty_spec()
    names = lambda ex: [u'M' * k + X for k in ex]
    cdefs = [X] + names(cextra)
    sdefs = ([X] + names(sextra)) if order == 'first' else (names(sextra) + [X])
    for i, n in enumerate(cdefs):
        spec['cauto'].append(sdef(kind, n, 'C%d' % i))
        spec['body'].append(site('b%d' % i, 'text:style-name', host, n))
    for i, n in enumerate(sdefs):
        spec['sauto'].append(sdef(kind, n, 'S%d' % i, mm='child' if i % 2 else 'attr'))
        spec['master'].append(site('m%d' % i, 'text:style-name', host, n))
    return spec


MNAME_CONFIGS = [(c, s_, o) for c in ((), (1,), (2,), (1, 2)) for s_ in ((), (1,), (2,), (1, 2)) for o in ('first', 'last')
                 if (c or s_) and not (o == 'last' and not s_)]


def mname_cells(X, kind, host, only=None):
    for cextra, sextra, order in (only or MNAME_CONFIGS):
        yield mname_spec(X, kind, host, cextra, sextra, order), {
            'block': 'special', 'what': "%s in both parts; content.xml also has %s; styles.xml also has %s, %s %s" % (
                X, ['M' * k + X for k in cextra], ['M' * k + X for k in sextra], X, order)}


LAYOUT_CASES = [('graphic', 'draw:style-name', 'draw:frame'), ('table', 'table:style-name', 'table:table'),
                ('presentation', 'presentation:style-name', 'draw:frame'), ('paragraph', 'text:style-name', 'text:p'),
                ('text', 'text:style-name', 'text:span'), ('date-style', 'style:data-style-name', 'text:date'),
                ('list-style', 'text:style-name', 'text:list'), ('page-layout', 'style:page-layout-name', 'style:master-page')]


def layout_cells():
    """every way of listing / storing the parts, for one cell per column of the matrix, name referenced from both"""
    for kind, attr, host in LAYOUT_CASES:
        for lay in range(len(LAYOUTS)):
            name = COLLIDING_NAME[kind]
            spec = empty_spec()
            spec['layout'] = lay
            spec['cauto'].append(sdef(kind, name, 'A')); spec['sauto'].append(sdef(kind, name, 'B', mm='child'))
            both = host != 'style:master-page'
            controls(spec, attr, host, kind, ('master', 'body') if both else ('master',))
            if both:
                spec['body'].append(site('b1', attr, host, name))
            spec['master'].append(site('m1', attr, host, name))
            yield spec, {'block': 'direct', 'kind': kind, 'attr': attr, 'host': host,
                         'placement': 'both' if both else 'master', 'layout': lay}


def resave_cells():
    """several packages saved from one loaded document (and unrelated edits in between), with and without a meta.xml
    that names a generator (save() replaces it), for one cell per column of the matrix and the headerfooter case"""
    for kind, attr, host in LAYOUT_CASES:
        for lay in (0, 4):
            for plan in range(1, len(SAVE_PLANS)):
                name = COLLIDING_NAME[kind]
                spec = empty_spec()
                spec['layout'] = lay; spec['saves'] = plan
                spec['cauto'].append(sdef(kind, name, 'A', mm='child')); spec['sauto'].append(sdef(kind, name, 'B'))
                both = host != 'style:master-page'
                controls(spec, attr, host, kind, ('master', 'body') if both else ('master',))
                if both:
                    spec['body'].append(site('b1', attr, host, name))
                spec['master'].append(site('m1', attr, host, name))
                yield spec, {'block': 'direct', 'kind': kind, 'attr': attr, 'host': host,
                             'placement': 'both' if both else 'master', 'layout': lay, 'saves': plan}
    # headerfooter.odt in small: P1, P2 in both parts, header and footer, body paragraphs
    for lay in (0, 5):
        for plan in range(1, len(SAVE_PLANS)):
            s = empty_spec()
            s['layout'] = lay; s['saves'] = plan
            s['cauto'] += [sdef('paragraph', 'P1', 'A'), sdef('paragraph', 'P2', 'A2', mm='child')]
            s['sauto'] += [sdef('paragraph', 'P1', 'B', mm='child'), sdef('paragraph', 'P2', 'B2'), sdef('page-layout', 'pm1', 'PL')]
            s['body'] += [site('b1', 'text:style-name', 'text:p', 'P1'), site('b2', 'text:style-name', 'text:p', 'P2')]
            s['master'] += [site('m0', 'style:page-layout-name', 'style:master-page', 'pm1'),
                            site('m1', 'text:style-name', 'text:p', 'P1'), site('m2', 'text:style-name', 'text:p', 'P2')]
            yield s, {'block': 'special', 'what': 'headerfooter: P1, P2 in both parts', 'layout': lay, 'saves': plan}


def special_cells():
    # fixed cases for the ways two definitions of one name can differ: P1 and T1 in both parts, referenced from body and header
    for mc, ms in MARKER_MODES:
        s = empty_spec()
        s['cauto'] += [sdef('paragraph', 'P1', 'A', mm=mc), sdef('text', 'T1', 'TA')]
        s['sauto'] += [sdef('paragraph', 'P1', 'B', mm=ms), sdef('text', 'T1', 'TB', mm='child')]
        s['body'] += [site('b1', 'text:style-name', 'text:p', 'P1'), site('b2', 'text:style-name', 'text:span', 'T1')]
        s['master'] += [site('m1', 'text:style-name', 'text:p', 'P1'), site('m2', 'text:style-name', 'text:span', 'T1')]
        yield s, {'block': 'special', 'what': 'P1/T1 in both parts, definitions differ by %s/%s' % (mc, ms)}
    # the source already uses 'M'+X / 'MM'+X next to X, in content.xml, in styles.xml, before or after X
    for spec, info in mname_cells('P1', 'paragraph', 'text:p'):
        yield spec, info
    for spec, info in mname_cells('MT', 'text', 'text:span', only=[((1,), (1,), 'first'), ((), (1, 2), 'first'), ((1,), (), 'last')]):
        yield spec, info
    # the same name in different families across the parts (keyed by name only: renamed although nothing clashes)
    s = empty_spec()
    s['cauto'] += [sdef('paragraph', 'X1', 'A')]
    s['sauto'] += [sdef('text', 'X1', 'B'), sdef('graphic', 'X1', 'G')]
    s['body'] += [site('b1', 'text:style-name', 'text:p', 'X1')]
    s['master'] += [site('m1', 'text:style-name', 'text:span', 'X1'), site('m2', 'draw:style-name', 'draw:frame', 'X1')]
    s['tag'] = 'other-family'
    yield s, {'block': 'special', 'what': "paragraph X1 in content.xml, text X1 and graphic X1 in styles.xml"}
    # two families under one name inside ONE part (legal ODF: names are per family)
    s = empty_spec()
    s['cauto'] += [sdef('paragraph', 'a1', 'A'), sdef('text', 'a1', 'B')]
    s['body'] += [site('b1', 'text:style-name', 'text:p', 'a1'), site('b2', 'text:style-name', 'text:span', 'a1')]
    s['tag'] = 'same-part-other-family'
    yield s, {'block': 'special', 'what': "paragraph a1 and text a1 both in content.xml"}
    # a common style of styles.xml under the name of an automatic style of content.xml
    s = empty_spec()
    s['cauto'] += [sdef('paragraph', 'Cx', 'A')]
    s['common'] += [sdef('paragraph', 'Cx', 'C'), sdef('paragraph', 'Child', 'D', [site('r1', 'style:parent-style-name', 'style:style', 'Cx')])]
    s['body'] += [site('b1', 'text:style-name', 'text:p', 'Cx'), site('b2', 'text:style-name', 'text:p', 'Child')]
    s['master'] += [site('m1', 'text:style-name', 'text:p', 'Cx')]
    s['tag'] = 'common-style'
    yield s, {'block': 'special', 'what': "automatic Cx in content.xml, common Cx in styles.xml with a child style"}
    # three-way: styles.xml has the name twice in different kinds
    s = empty_spec()
    s['cauto'] += [sdef('list-style', 'L1', 'A'), sdef('paragraph', 'P1', 'PA', [site('r0', 'style:list-style-name', 'style:style', 'L1')])]
    s['sauto'] += [sdef('list-style', 'L1', 'B'), sdef('paragraph', 'P1', 'PB', [site('r1', 'style:list-style-name', 'style:style', 'L1')])]
    s['body'] += [site('b1', 'text:style-name', 'text:p', 'P1')]
    s['master'] += [site('m1', 'text:style-name', 'text:p', 'P1')]
    yield s, {'block': 'special', 'what': "paragraph P1 -> list style L1, both names in both parts"}


def all_cells(H):
    for c in direct_cells(H):
        yield c
    for c in internal_cells():
        yield c
    for c in layout_cells():
        yield c
    for c in resave_cells():
        yield c
    for c in special_cells():
        yield c



# ------------------------------------------------------------------ random multi-collision packages
def direct_pairs(H):
    """{class: {'master': [(attr, host)], 'body': [...]}} single-valued attributes only"""
    out = {}
    for region in ('master', 'body'):
        for attr, hosts in sorted(H[region].items()):
            for host in hosts:
                cls = target_class(attr, host)
                if cls is not None:
                    out.setdefault(cls, {'master': [], 'body': []})[region].append((attr, host))
    return out


def gen_random(rng, DP):
    spec = empty_spec()
    kinds = rng.sample(KIND_ORDER, rng.randint(2, 5))
    mk = [0]
    sid = [0]

    def marker():
        mk[0] += 1
        return 'K%d' % mk[0]

    def newsid():
        sid[0] += 1
        return 'r%d' % sid[0]
    defined = {'cauto': {}, 'sauto': {}, 'common': {}}      # class -> names
    used_none = [False]
    ncoll = 0
    for kind in kinds:
        cls = KINDS[kind][2]
        base = COLLIDING_NAME[kind].rstrip('0123456789') or 'N'
        for i in range(rng.randint(1, 3)):
            name = '%s%d' % (base, rng.randint(1, 4) * 10 + i)
            where = rng.choice(['both', 'both', 'both', 'content', 'styles'])
            for part in (('cauto',) if where == 'content' else ('sauto',) if where == 'styles' else ('cauto', 'sauto')):
                if name in [n for c in defined[part].values() for n in c]:
                    continue
                mm = rng.choice(['attr', 'attr', 'child', 'child', 'attronly', 'none'])
                if mm == 'none':
                    if used_none[0]:
                        mm = 'child'
                    used_none[0] = True
                spec[part].append(sdef(kind, name, marker(), mm=mm))
                defined[part].setdefault(cls, []).append(name)
            if where == 'both':
                ncoll += 1
        if rng.random() < 0.4 and KINDS[kind][0] == 'style:style':
            name = 'Common_%s' % kind
            spec['common'].append(sdef(kind, name, marker()))
            defined['common'].setdefault(cls, []).append(name)
    for part in ('cauto', 'sauto'):
        rng.shuffle(spec[part])
    # references inside automatic styles
    for part in ('cauto', 'sauto'):
        for d in spec[part]:
            for attr, host, okind in STYLE_INTERNAL:
                if okind == d['kind'] and rng.random() < 0.5:
                    cls = target_class(attr, host, KINDS[okind][2])
                    pool = [n for n in defined[part].get(cls, []) if n != d['name']]
                    if pool:
                        d['refs'].append(site(newsid(), attr, host, rng.choice(pool)))
                        break
    # references from the body and from the master pages
    for region, part in (('body', 'cauto'), ('master', 'sauto')):
        for _ in range(rng.randint(1, 6)):
            classes = [c for c in sorted(set(defined[part]) | set(defined['common'])) if DP.get(c, {}).get(region)]
            if not classes:
                continue
            cls = rng.choice(classes)
            pool = defined[part].get(cls, []) + (defined['common'].get(cls, []) if rng.random() < 0.3 else [])
            if not pool:
                continue
            attr, host = rng.choice(DP[cls][region])
            if host in ('style:master-page', 'presentation:notes', 'draw:page-thumbnail', 'draw:page'):
                continue
            spec[region].append(site(newsid(), attr, host, rng.choice(pool)))
    mcfg = None
    if rng.random() < 0.3:
        # the source already uses 'M'+X next to X: one of the fixed configurations, under a name of its own
        mcfg = rng.choice(MNAME_CONFIGS)
        extra = mname_spec(u'Q7', 'paragraph', 'text:p', *mcfg)
        for part in ('cauto', 'sauto'):
            for d in extra[part]:
                spec[part].append(d)          # (relative order inside the configuration is what matters)
        spec['body'] += extra['body']; spec['master'] += extra['master']
    spec['layout'] = rng.randrange(len(LAYOUTS))
    spec['saves'] = rng.choice([0, 0, 0, 1, 2, 3, 4])
    return spec, {'block': 'random', 'collisions': ncoll, 'kinds': kinds, 'mnames': mcfg, 'layout': spec['layout']}


# ------------------------------------------------------------------ sessions: embedded objects, several packages in one process
# The property speaks of a loaded package: it does not matter what else the process has loaded, failed to load, built or
# saved before, nor whether the (sub)document is the top-level one or sits in `Object <n>/`.  A session is a history
#   ['load', k]   load package k (kept alive until the end)          ['save', k]   save the document loaded from package k
#   ['build']     build a document through the API (never judged: it only uses the library)
# over packages  {'parts': [[folder, spec], ...] ('' first, then 'Object 1/', 'Object 1/Object 2/', ...),
#                 'fault': None | a member the manifest lists although the archive does not hold it,  'objects_first': bool}
# Every (sub)document of every package that could be loaded is judged on its own source parts, exactly as `oracle` does.
FAULTS = ['Pictures/gone.png', 'Thumbnails/thumbnail.png', 'Configurations2/accelerator/current.xml', 'layout-cache',
          'Object 1/Pictures/gone.png']


def build_compound(pk):
    """-> (package bytes, {folder: (content.xml, styles.xml)}); written with zipfile + hand-written XML"""
    parts = {}
    order = []
    for folder, spec in pk['parts']:
        parts[folder] = build_parts(spec)
        order.append(folder)
    entries = ['<manifest:file-entry manifest:full-path="/" manifest:version="1.2" manifest:media-type="%s"/>' % MIME]
    seq = order[1:] + order[:1] if pk.get('objects_first') else order
    for folder in seq:
        if folder:
            entries.append('<manifest:file-entry manifest:full-path="%s" manifest:media-type="%s"/>' % (esc(folder), MIME))
        for n in ('content.xml', 'styles.xml'):
            entries.append('<manifest:file-entry manifest:full-path="%s%s" manifest:media-type="text/xml"/>' % (esc(folder), n))
    if pk.get('fault'):
        entries.append('<manifest:file-entry manifest:full-path="%s" manifest:media-type="%s"/>'
                       % (esc(pk['fault']), 'image/png' if pk['fault'].endswith('.png') else 'application/binary'))
    manifest = ('<?xml version="1.0" encoding="UTF-8"?>\n<manifest:manifest xmlns:manifest="%s" manifest:version="1.2">%s'
                '</manifest:manifest>' % (NS['manifest'], ''.join(entries))).encode('utf-8')
    buf = io.BytesIO()
    z = zipfile.ZipFile(buf, 'w')
    z.writestr(zipfile.ZipInfo('mimetype'), MIME.encode('ascii'))
    for folder in seq:
        z.writestr(folder + 'content.xml', parts[folder][0], zipfile.ZIP_DEFLATED)
        z.writestr(folder + 'styles.xml', parts[folder][1], zipfile.ZIP_DEFLATED)
    z.writestr('META-INF/manifest.xml', manifest, zipfile.ZIP_DEFLATED)
    z.close()
    return buf.getvalue(), parts


def subdocuments(doc):
    """{folder in the package: (sub)document}, by plain traversal of `childobjects`"""
    out = {'': doc}
    todo = [doc]
    while todo:
        d = todo.pop()
        for c in d.childobjects:
            out[c.folder.lstrip('/') + '/'] = c
            todo.append(c)
    return out


def api_built_document():
    """what a program does next to loading packages: a document of its own, with automatic styles numbered from 1"""
    from odf.opendocument import OpenDocumentText
    from odf.style import Style, TextProperties
    from odf.text import P as Para, Span
    d = OpenDocumentText()
    for nm, fam in ((u'P1', u'paragraph'), (u'T1', u'text'), (u'MP1', u'paragraph'), (u'P1', u'paragraph')):
        st = Style(name=nm, family=fam)
        st.addElement(TextProperties(color=u'#010203'))
        d.automaticstyles.addElement(st)
    p = Para(stylename=u'P1'); p.addElement(Span(stylename=u'T1', text=u'built'))
    d.text.addElement(p)
    out = io.BytesIO(); d.save(out)
    return d


def session_oracle(sess, T, loader):
    """returns (failures, stats, trips); trips = [(package index, folder, source view, rounds)] for the correspondence"""
    built = [build_compound(pk) for pk in sess['packages']]
    docs = {}               # package index -> {folder: document}
    rounds = {}             # (package index, folder) -> [round]
    keep = []               # everything stays alive until the end of the session
    raised = []
    stats = {'session_loads': 0, 'session_loads_raised': 0, 'session_saves': 0, 'session_documents_judged': 0}
    for step in sess['steps']:
        if step[0] == 'build':
            keep.append(api_built_document())
        elif step[0] == 'load':
            k = step[1]
            pk = sess['packages'][k]
            stats['session_loads'] += 1
            if pk.get('fault'):
                try:
                    docs[k] = subdocuments(loader(io.BytesIO(built[k][0])))
                except Exception:
                    stats['session_loads_raised'] += 1       # the caller reports it and goes on with the next package
            else:
                try:
                    docs[k] = subdocuments(loader(io.BytesIO(built[k][0])))
                except Exception as e:
                    # a complete package: there is no loaded document in which its references could resolve
                    raised.append(('raised:load:%s' % e.__class__.__name__,
                                   'step %r: load() of package #%d (every listed member present) raised %r' % (step, k, e)))
            keep.append(docs.get(k))
        elif step[0] == 'save':
            k = step[1]
            if k not in docs:
                continue
            stats['session_saves'] += 1
            pre = {}
            for folder in sorted(docs[k]):
                d = docs[k][folder]
                pre[folder] = (view_of_doc(d), dict(d._styles_ooo_fix))
            out = io.BytesIO()
            try:
                docs[k][''].save(out)
            except Exception as e:
                raised.append(('raised:save:%s' % e.__class__.__name__,
                               'step %r: save() of the document loaded from package #%d raised %r' % (step, k, e)))
                continue
            for folder in sorted(docs[k]):
                if folder not in built[k][1]:
                    continue
                saved = view_of_zip(out.getvalue(), folder)
                mv, fix = pre[folder]
                rounds.setdefault((k, folder), []).append({'mv': mv, 'fix': fix, 'mem': sites_of(mv, T), 'saved': saved,
                                                           'after': sites_of(saved, T)})
    fails = list(raised)
    trips = []
    for k in sorted(docs):
        have = sorted(docs[k])
        want = sorted(built[k][1])
        if have != want:
            fails.append(('objects:%s' % ('missing' if set(want) - set(have) else 'extra'),
                          'package #%d: the (sub)documents of the source are %r, those of the loaded document %r' % (k, want, have)))
        for folder in want:
            if folder not in docs[k]:
                continue
            content, styles = built[k][1][folder]
            src = view_of_parts(content, styles)
            before = sites_of(src, T)
            rds = rounds.get((k, folder), [])
            mem_end = sites_of(view_of_doc(docs[k][folder]), T)
            spec = dict(sess['packages'][k]['parts'])[folder]
            f, st = judge(src, before, rds, mem_end, T, spec.get('tag'),
                          label='package #%d, %s: ' % (k, ('embedded object %s' % folder) if folder else 'top-level document'))
            fails += f
            stats['session_documents_judged'] += 1
            for a, b in st.items():
                stats[a] = stats.get(a, 0) + b
            if rds:
                trips.append((k, folder, src, rds))
    return fails, stats, trips


def suite_part(pfx, kinds, noclash=False, refs=('body', 'master')):
    """one (sub)document as an office suite writes it: every part numbers its automatic styles from 1, so content.xml and
    styles.xml (and every other document of the same suite) use the same names; markers are unique per document"""
    s = empty_spec()
    for i, (kind, attr, host) in enumerate(kinds):
        name = COLLIDING_NAME[kind]
        s['cauto'].append(sdef(kind, name, '%sA%d' % (pfx, i), mm='attr' if i % 2 == 0 else 'child'))
        if not noclash:
            s['sauto'].append(sdef(kind, name, '%sB%d' % (pfx, i), mm='child' if i % 2 == 0 else 'attr'))
        if 'body' in refs:
            s['body'].append(site('b%d' % i, attr, host, name))
        if 'master' in refs and not noclash and host != 'style:master-page':
            s['master'].append(site('m%d' % i, attr, host, name))
    s['cauto'].append(sdef('paragraph', 'CtlC', pfx + 'CC')); s['body'].append(site('cb', 'text:style-name', 'text:p', 'CtlC'))
    s['sauto'].append(sdef('paragraph', 'CtlS', pfx + 'CS')); s['master'].append(site('cm', 'text:style-name', 'text:p', 'CtlS'))
    return s


TEXT_KINDS = [('paragraph', 'text:style-name', 'text:p'), ('text', 'text:style-name', 'text:span')]
BODY_KINDS = [('graphic', 'draw:style-name', 'draw:frame'), ('table', 'table:style-name', 'table:table'),
              ('list-style', 'text:style-name', 'text:list'), ('date-style', 'style:data-style-name', 'text:date')]


def package_of(parts, fault=None, objects_first=False):
    """parts = [(folder, spec)]: every document names the objects directly below it in frames of its body"""
    folders = [f for f, _ in parts]
    for f, spec in parts:
        kids = [g[len(f):-1] for g in folders if g != f and g.startswith(f) and '/' not in g[len(f):-1]]
        if kids:
            spec['frames'] = kids
    return {'parts': [[f, s] for f, s in parts], 'fault': fault, 'objects_first': objects_first}


def load_save_all(n, order='in-turn'):
    if order == 'in-turn':
        return [['load', k] for k in range(n)] + [['save', k] for k in range(n)]
    if order == 'reverse':
        return [['load', k] for k in range(n)] + [['save', k] for k in reversed(range(n))]
    if order == 'interleaved':
        return [x for k in range(n) for x in (['load', k], ['save', k])] + [['save', 0]]
    if order == 'twice':
        return [['load', k] for k in range(n)] + [['save', k] for k in range(n)] + [['save', k] for k in reversed(range(n))]
    raise ValueError(order)


SESSION_ORDERS = ['in-turn', 'reverse', 'interleaved', 'twice']


def session_cells():
    """fixed sessions: where the documents of a process meet"""
    n = [0]

    def what(text, **kw):
        n[0] += 1
        d = {'block': 'session', 'what': text}
        d.update(kw)
        return d
    # 1 embedded objects: the object uses the names of its parent (all four parts number from 1)
    for main_clash in (True, False):
        for obj_clash in (True, False):
            for shape in ('one', 'siblings', 'nested'):
                for first in (False, True):
                    parts = [('', suite_part('m', TEXT_KINDS, noclash=not main_clash)),
                             ('Object 1/', suite_part('o', TEXT_KINDS + BODY_KINDS[:2], noclash=not obj_clash))]
                    if shape == 'siblings':
                        parts.append(('Object 2/', suite_part('p', TEXT_KINDS + BODY_KINDS[2:], noclash=obj_clash)))
                    if shape == 'nested':
                        parts.append(('Object 1/Object 2/', suite_part('q', TEXT_KINDS, noclash=obj_clash)))
                    yield ({'packages': [package_of(parts, objects_first=first)], 'steps': load_save_all(1, 'twice' if first else 'in-turn')},
                           what('embedded objects (%s): top-level document %s a name in both parts, Object 1 %s'
                                % (shape, 'uses' if main_clash else 'does not use', 'does' if obj_clash else 'does not'),
                                shape='objects-' + shape))
    # 2 a package that cannot be loaded (its manifest lists a member the archive does not hold), then an ordinary one
    for fi, fault in enumerate(FAULTS):
        for bad_clash in (True, False):
            for next_clash in (True, False):
                bad_parts = [('', suite_part('x', TEXT_KINDS, noclash=not bad_clash))]
                if fault.startswith('Object 1/'):
                    bad_parts.append(('Object 1/', suite_part('y', TEXT_KINDS, noclash=not bad_clash)))
                pks = [package_of(bad_parts, fault=fault), package_of([('', suite_part('n', TEXT_KINDS + BODY_KINDS[fi % 2::2], noclash=not next_clash))])]
                yield ({'packages': pks, 'steps': load_save_all(2, SESSION_ORDERS[fi % 2])},
                       what('the manifest of the first package lists %s, which is missing; the next package %s'
                            % (fault, 'reuses a name across its parts' if next_clash else 'has no clash'), shape='after-failed-load'))
    # 3 several packages loaded one after the other, all kept alive, saved in every order
    for order in SESSION_ORDERS:
        for clashes in ((True, True), (True, False), (False, True), (True, True, True)):
            pks = [package_of([('', suite_part('d%d' % i, TEXT_KINDS + (BODY_KINDS[i::2] if i else []), noclash=not c))])
                   for i, c in enumerate(clashes)]
            yield ({'packages': pks, 'steps': load_save_all(len(pks), order)},
                   what('%d packages of the same suite in one process, saved %s; clash in: %s' % (len(pks), order, list(clashes)),
                        shape='several-loads'))
    # 4 the same package loaded twice; a document built through the API before / between the loads
    for order in SESSION_ORDERS[:2]:
        pk = package_of([('', suite_part('s', TEXT_KINDS))])
        yield ({'packages': [pk], 'steps': [['load', 0], ['save', 0], ['load', 0], ['save', 0]]},
               what('one package loaded again after it was saved', shape='several-loads'))
        pks = [package_of([('', suite_part('u', TEXT_KINDS))]), package_of([('', suite_part('v', TEXT_KINDS)), ('Object 1/', suite_part('w', TEXT_KINDS))])]
        steps = load_save_all(2, order)
        yield ({'packages': pks, 'steps': [['build']] + steps[:1] + [['build']] + steps[1:]},
               what('documents built through the API before and between the loads (%s)' % order, shape='with-built-documents'))


def gen_session(rng, DP):
    """random sessions: 1-3 packages; each part is a suite part (names numbered from 1) or a random multi-collision
    package; objects below the top-level document and below objects; some packages cannot be loaded"""
    def part(pfx):
        if rng.random() < 0.5:
            kinds = list(TEXT_KINDS) if rng.random() < 0.8 else []
            kinds += rng.sample(BODY_KINDS, rng.randint(0, 2))
            if not kinds:
                kinds = TEXT_KINDS[:1]
            return suite_part(pfx, kinds, noclash=rng.random() < 0.3, refs=rng.choice([('body', 'master'), ('body', 'master'), ('body',), ('master',)]))
        spec, _ = gen_random(rng, DP)
        spec.pop('saves', None); spec.pop('layout', None)
        return spec
    pks = []
    for i in range(rng.randint(1, 3)):
        parts = [('', part('g%d' % i))]
        nobj = rng.choice([0, 0, 1, 1, 2])
        for j in range(nobj):
            parts.append(('Object %d/' % (j + 1), part('g%do%d' % (i, j))))
            if rng.random() < 0.25:
                parts.append(('Object %d/Object 1/' % (j + 1), part('g%do%dn' % (i, j))))
        fault = None
        if rng.random() < 0.25:
            fault = rng.choice(FAULTS[:4] + [f + 'Pictures/gone.png' for f, _ in parts[1:]])
        pks.append(package_of(parts, fault=fault, objects_first=rng.random() < 0.5))
    steps = [['load', k] for k in range(len(pks))]
    saves = [['save', k] for k in range(len(pks))] + [['save', rng.randrange(len(pks))] for _ in range(rng.randint(0, 2))]
    rng.shuffle(saves)
    steps += saves
    if rng.random() < 0.5:
        # a save before the next load; a document built through the API somewhere
        i = rng.randrange(len(pks))
        steps.insert(i + 1, ['save', i])
    if rng.random() < 0.3:
        steps.insert(rng.randrange(len(steps)), ['build'])
    return ({'packages': pks, 'steps': steps},
            {'block': 'session', 'shape': 'random', 'packages': len(pks), 'objects': sum(len(pk['parts']) - 1 for pk in pks),
             'faults': [pk['fault'] for pk in pks if pk['fault']]})


# ------------------------------------------------------------------ correspondence with the model (drv_clash)
def flatten(view, T, marker_index):
    """the package as the model sees it: per container the definitions / reference sites in document order.
    returns (driver line, ordered site keys)"""
    schema = T['c11_schema']; listy = T['c11_listy']; code = T['c11_code']

    def refs_of(tree, owner, region):
        out = []
        for e in walk(tree):
            sid = e[1].get(SID)
            for a, v in sorted(e[1].items()):
                pa = P(a)
                if pa in schema and v:
                    cls = target_class(pa, P(e[0]), def_class(owner) if owner is not None else None)
                    for i, tok in enumerate([x for x in XML_SPACE.split(v) if x] if pa in listy else [v]):
                        out.append(((region, sid, pa, i), code[pa], tok, CLASS_CODE.get(cls, 0)))
        return out

    def ref_toks(rs):
        t = []
        for _, a, v, c in rs:
            t += [str(a), enc_str(v), str(c)]
        return t

    def defs(pool, region):
        t = [str(len(pool))]; keys = []
        for d in pool:
            rs = refs_of(d, d, region)
            m = marker_of(d)
            if m not in marker_index:
                marker_index[m] = len(marker_index)
            t += ['1' if P(d[0]) == 'style:style' else '0', str(CLASS_CODE.get(def_class(d), 99)),
                  enc_str(d[1].get(STYLE_NAME, u'')), str(marker_index[m]), str(len(rs))] + ref_toks(rs)
            keys += [r[0] for r in rs]
        return t, keys
    ca, kca = defs(view.cauto, 'cauto')
    b = refs_of(view.body, None, 'body')
    co, kco = defs(view.common, 'common')
    sa, ksa = defs(view.sauto, 'sauto')
    m = refs_of(view.master, None, 'master')
    toks = ['pkg'] + ca + [str(len(b))] + ref_toks(b) + co + sa + [str(len(m))] + ref_toks(m)
    return ' '.join(toks), [r[0] for r in b] + [r[0] for r in m] + kca + ksa + kco


def observe(rd, T, keys, marker_index, before):
    """the same observables on the real load() + save(), for one saved package `rd` (a round of `oracle`)"""
    schema = T['c11_schema']; listy = T['c11_listy']
    mv, saved, mem, after = rd['mv'], rd['saved'], rd['mem'], rd['after']

    def names_of(tree):
        out = []
        for e in walk(tree):
            for a, v in sorted(e[1].items()):
                pa = P(a)
                if pa in schema and v:
                    out += [enc_str(x) for x in ([y for y in XML_SPACE.split(v) if y] if pa in listy else [v])]
        return out

    def mi(t):
        return marker_index.get(marker_of(t), 'x%s' % marker_of(t))
    fix = sorted('%s>%s' % (enc_str(u'%s' % (a,)), enc_str(u'%s' % (b,))) for a, b in rd['fix'].items())
    L = ['%s=%s(%s)' % (mi(d), enc_str(d[1].get(STYLE_NAME, u'')), ','.join(names_of(d))) for d in mv.common + mv.cauto]

    def res(r, key, alias=False):
        x = r.get(key)
        if x is None and alias and key[0] in ('cauto', 'sauto'):
            x = r.get(('cauto' if key[0] == 'sauto' else 'sauto',) + key[1:])
        if x is None:
            return '~'
        return '-' if x['target'] is None else str(mi(x['target']))
    R = ['%s/%s/%s' % (res(before, k).replace('~', '-'), res(mem, k, True), res(after, k)) for k in keys]
    w = lambda l: ' '.join(l) if l else '~'
    return 'ok F %s | L %s ; %s ; %s | C %s | S %s | R %s' % (
        w(fix), w(L), w(names_of(mv.body)), w(names_of(mv.master)),
        w([str(mi(d)) for d in saved.cauto]), w([str(mi(d)) for d in saved.sauto]), w(R))


def canon_model(ans):
    """the model lists `_styles_ooo_fix` latest binding first: compare as a sorted set of pairs"""
    if not ans.startswith('ok F '):
        return ans
    head, sep, rest = ans[5:].partition(' | ')
    pairs = [] if head.strip() == '~' else head.split()
    seen = {}
    for p in reversed(pairs):
        a, _, b = p.partition('>')
        seen[a] = b
    f = sorted('%s>%s' % kv for kv in seen.items())
    return 'ok F %s | %s' % (' '.join(f) if f else '~', rest)


# ------------------------------------------------------------------ run
def run_case(chk, spec, info, T, loader, lines, pending):
    fails, stats, trip = oracle(spec, T, loader)
    key = json.dumps(spec, sort_keys=True)
    chk.case(key, nontrivial=stats['clash_sites'] > 0 or info.get('placement') == 'neither',
             sample={'info': info, 'failures': sorted(set(f[0] for f in fails))} if info['block'] in ('random', 'special') else None)
    chk.count('block_' + info['block'])
    if 'placement' in info:
        chk.count('placement_' + info['placement'])
    if 'layout' in info:
        chk.count('layout_%d' % info['layout'])
    chk.count('save_plan_' + '-'.join(SAVE_PLANS[spec.get('saves', 0)]))
    if 'differ' in info:
        chk.count('definitions_differ_' + info['differ'])
    for k, v in sorted(stats.items()):
        chk.count(k, v)
    if not fails:
        chk.count('packages_with_every_reference_preserved')
    seen = set()
    for sig, detail in fails:
        if sig in seen:
            continue
        seen.add(sig)
        chk.fail(sig, {'spec': spec, 'info': info}, detail)
    if lines is not None:
        mi = {}
        line, keys = flatten(trip[0], T, mi)
        before = sites_of(trip[0], T)
        lines.append(line)
        # the model's save is a function of the loaded document: every package saved from it must be the model's package
        pending.append(([observe(rd, T, keys, mi, before) for rd in trip[2]], spec, info))
    return fails


def run_session(chk, sess, info, T, loader, lines, pending):
    fails, stats, trips = session_oracle(sess, T, loader)
    chk.case(json.dumps(sess, sort_keys=True), nontrivial=stats.get('clash_sites', 0) > 0 and
             (stats['session_loads'] > 1 or any(len(pk['parts']) > 1 for pk in sess['packages'])),
             sample={'info': info, 'failures': sorted(set(f[0] for f in fails))})
    chk.count('block_session')
    chk.count('session_shape_' + info.get('shape', '?'))
    for k, v in sorted(stats.items()):
        chk.count(k, v)
    if not fails:
        chk.count('sessions_with_every_reference_preserved')
    seen = set()
    for sig, detail in fails:
        if sig in seen:
            continue
        seen.add(sig)
        chk.fail(sig, {'session': sess, 'info': info}, detail)
    if lines is not None and trips:
        # the model is driven through the whole session (OdfModel.StyleClash.loadSession, op `sess` of drv_clash): one
        # request with the source parts of every (sub)document, one answer per document
        reqs, group = [], []
        for k, folder, src, rds in trips:
            mi = {}
            line, keys = flatten(src, T, mi)
            before = sites_of(src, T)
            reqs.append(line[len('pkg '):])
            group.append(([observe(rd, T, keys, mi, before) for rd in rds], {'session': sess, 'package': k, 'folder': folder}, info))
        lines.append('sess ' + ' ;; '.join(reqs))
        pending.append(group)
    return fails


def cell_table(results):
    """(kind-class, attribute, placement) -> holds / fails, for the evidence file"""
    tab = {}
    for info, fails in results:
        if info['block'] not in ('direct', 'internal'):
            continue
        k = '%s | %s | %s' % (KINDS[info['kind']][2], info['attr'], info['placement'])
        cur = tab.get(k, 'holds')
        if fails:
            cur = 'FAILS'
        tab[k] = cur
    return tab


def run(chk, replay=None):
    from odf.opendocument import load
    chk.rule = ('complete matrix: every kind of automatic style (12 families, 7 data-style elements, list style, page layout) x '
                'every (reference attribute, host element) of the schema below style:master-page / office:body that asks for '
                'that class x colliding name referenced from {master, body, both, neither}; references inside automatic '
                'styles before/after the colliding definition; special packages; seeded random multi-collision packages; '
                'sessions (embedded objects, a failed load before a good one, several packages alive in one process, every save order). '
                'non-trivial = a reference to a name defined in both parts (or the `neither` control)')
    T = schema_tables(translate_styles.tables())
    if replay is not None and 'session' in replay['input']:
        fails, stats, _ = session_oracle(replay['input']['session'], T, load)
        for sig, detail in fails:
            print('replay: %s: %s' % (sig, detail))
        want = replay.get('signature')
        hit = [f for f in fails if want is None or f[0] == want]
        print('replay: session of %d loads (%d raised), %d documents judged, %d reference sites, %d failures (%d with the recorded signature)'
              % (stats['session_loads'], stats['session_loads_raised'], stats['session_documents_judged'], stats.get('sites', 0),
                 len(fails), len(hit)))
        return 1 if hit else 0
    if replay is not None:
        spec = replay['input']['spec']
        fails, stats, _ = oracle(spec, T, load)
        for sig, detail in fails:
            print('replay: %s: %s' % (sig, detail))
        want = replay.get('signature')
        hit = [f for f in fails if want is None or f[0] == want]
        print('replay: %d reference sites, %d failures (%d with the recorded signature)' % (stats['sites'], len(fails), len(hit)))
        return 1 if hit else 0
    # 1 translate
    T = schema_tables(translate_styles.translate(chk))
    H = schema_hosts(common.REPO, T['c11_schema'])
    unknown = sorted('%s@%s' % (a, h) for region in H for a, hs in H[region].items() for h in hs
                     if target_class(a, h) is None and a not in NOT_AUTOMATIC)
    chk.obligation('every (reference attribute, host) of the schema below master pages / body has a known target class', not unknown,
                   ', '.join(unknown[:8]))
    missing = sorted(a for a in T['c11_schema'] if a not in NOT_AUTOMATIC and not any(a in H[r] for r in H)
                     and a not in [x[0] for x in STYLE_INTERNAL])
    chk.obligation('every schema style-reference attribute is in the matrix or listed as never naming an automatic style',
                   not missing, ', '.join(missing))
    chk.extra_cov['matrix'] = {'attributes_usable_in_master_pages': sorted(H['master']),
                               'attributes_usable_in_body_only': sorted(set(H['body']) - set(H['master'])),
                               'hosts_master': sum(len(v) for v in H['master'].values()),
                               'hosts_body': sum(len(v) for v in H['body'].values()),
                               'excluded_attributes': NOT_AUTOMATIC}
    # 2 prove
    chk.prove(drivers=['drv_clash'])
    drv = chk.driver('drv_clash')
    # 3 + 4
    lines, pend, results = [], [], []
    for spec, info in all_cells(H):
        results.append((info, run_case(chk, spec, info, T, load, lines, pend)))
    DP = direct_pairs(H)
    nrand = 6000 if chk.tier == 'thorough' else 300
    for _ in range(nrand):
        spec, info = gen_random(chk.rng, DP)
        results.append((info, run_case(chk, spec, info, T, load, lines, pend)))
    slines, spend = [], []
    for sess, info in session_cells():
        run_session(chk, sess, info, T, load, slines, spend)
    for _ in range(1000 if chk.tier == 'thorough' else 60):
        sess, info = gen_session(chk.rng, DP)
        run_session(chk, sess, info, T, load, slines, spend)
    answers = drv.batch(lines + slines)
    pairs = list(zip(pend, answers[:len(lines)]))
    for group, ans in zip(spend, answers[len(lines):]):
        models = ans.strip().split(' ;; ')
        chk.count('sessions_sent_to_the_model')
        if len(models) != len(group):
            chk.corr(); chk.corr_diff({'session': group[0][1]['session']}, '%d documents' % len(group), ans[:200], 'one answer per document of the session')
            continue
        pairs += list(zip(group, models))
    for (impls, spec, info), model in pairs:
        chk.corr()
        impl = impls[0]
        model, _, handled = model.strip().partition(' | H ')
        # the hypotheses of resolve_preserved_partial, evaluated by the model on this package: where they hold the
        # REAL load()+save() must have preserved the site (the theorem's prediction, checked on the implementation)
        hp, _, bits = handled.partition(' ')
        rs = impl.rpartition(' | R ')[2].split()
        if hp == '1':
            chk.count('packages_in_the_class_Handled')
            for b, r in zip(bits, rs if rs != ['~'] else []):
                if b == '1':
                    chk.count('handled_sites')
                    x = r.split('/')
                    if x[0] != '-':
                        chk.count('handled_sites_resolved_and_checked')
                        if not (x[1] == x[0] and x[2] in (x[0], '~')):
                            chk.corr_diff({'spec': spec, 'info': info}, r, 'Handled package, HandledSite: preserved',
                                          'resolve_preserved_partial predicts this site is preserved; the real load()+save() gave before/memory/saved = ' + r)
        for k, later in enumerate(impls[1:]):
            if later != canon_model(model.strip()):
                chk.corr_diff({'spec': spec, 'info': info, 'save': k + 2}, later, model,
                              'save #%d from the same loaded document: the observables of the first save, again' % (k + 2))
        if impl != canon_model(model.strip()):
            chk.corr_diff({'spec': spec, 'info': info}, impl, model,
                          '_styles_ooo_fix | names and reference values after load | automatic styles written to content.xml | to styles.xml | resolution of every site before/in memory/saved')
    tab = cell_table(results)
    chk.extra_cov['cells'] = {'total': len(tab), 'hold': sum(1 for v in tab.values() if v == 'holds'),
                              'fail': sum(1 for v in tab.values() if v != 'holds'),
                              'failing': sorted(k for k, v in tab.items() if v != 'holds'),
                              'holding': sorted(k for k, v in tab.items() if v == 'holds')}

    def deep():
        for _ in range(300):
            sess, info = gen_session(chk.rng, DP)
            fails, _, _ = session_oracle(sess, T, load)
            for sig, detail in fails:
                if chk.fail(sig, {'session': sess, 'info': info}, detail) == 'violation':
                    return
        for _ in range(5000):
            spec, info = gen_random(chk.rng, DP)
            fails, _, _ = oracle(spec, T, load)
            for sig, detail in fails:
                if chk.fail(sig, {'spec': spec, 'info': info}, detail) == 'violation':
                    return
    chk.deep_search = deep
    return chk.finish()

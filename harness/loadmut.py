# -*- coding: utf-8 -*-
"""Structure-preserving mutators and synthetic packages for C05 (written with zipfile + loadcommon.serialise only).

A package spec is {'mimetype': str|None, 'manifest': [(path, mediatype)], 'members': [(name, bytes)]}
(`members` without mimetype and META-INF/manifest.xml).  Every mutator returns a NEW spec whose XML infoset (element
names by namespace, attributes, character data), file list and bytes of the non-XML members are those of the input,
except for the one feature the mutator is about (which is then part of the *source* the oracle compares against).
"""
import re, zipfile
import loadcommon as L

ODF = u'urn:oasis:names:tc:opendocument:xmlns:%s:1.0'
STD_PREFIX = {
    L.OFFICENS: u'office', L.STYLENS: u'style', L.TEXTNS: u'text', L.TABLENS: u'table', L.DRAWNS: u'draw',
    L.FONS: u'fo', L.XLINKNS: u'xlink', L.DCNS: u'dc', L.METANS: u'meta', ODF % u'datastyle': u'number',
    L.SVGNS: u'svg', ODF % u'chart': u'chart', ODF % u'dr3d': u'dr3d', u'http://www.w3.org/1998/Math/MathML': u'math',
    ODF % u'form': u'form', ODF % u'script': u'script', L.CONFIGNS: u'config', ODF % u'presentation': u'presentation',
    ODF % u'smil-compatible': u'smil', ODF % u'animation': u'anim', u'http://openoffice.org/2004/office': u'ooo',
}
FOREIGN = u'urn:example:foreign-producer'


def spec_of(pkg):
    return {'mimetype': None if pkg.mimetype is None else pkg.mimetype.decode('utf-8'),
            'manifest': list(pkg.manifest),
            'members': [(n, pkg.data[n]) for n in unique(pkg.names) if n not in ('mimetype', 'META-INF/manifest.xml')]}


def unique(names):
    seen = set(); out = []
    for n in names:
        if n not in seen:
            seen.add(n); out.append(n)
    return out


def write(spec):
    return L.write_pkg(spec['mimetype'], spec['manifest'], spec['members'])


def xml_parts(spec):
    """names of the XML parts the loader parses: the four parts of the top document and of every folder"""
    return [n for n, _ in spec['members'] if n.split(u'/')[-1] in L.PARTS and (n.count(u'/') == 0 or n.startswith(u'Object '))]


def map_parts(spec, f, only=None):
    """apply f(name, tree, prefixes) -> bytes|None to every XML part"""
    names = set(xml_parts(spec))
    out = []
    for n, b in spec['members']:
        if n in names and (only is None or n.split(u'/')[-1] in only):
            try:
                t = L.parse_xml(b)
            except Exception:
                out.append((n, b)); continue
            pm = L.prefix_map(b)
            nb = f(n, t, pm)
            out.append((n, b if nb is None else nb))
        else:
            out.append((n, b))
    return {'mimetype': spec['mimetype'], 'manifest': list(spec['manifest']), 'members': out}


def prefixes_for(t, pm):
    """a prefix for every namespace used in the tree: the producer's own where it had one"""
    d = {}
    for p, ns in pm:
        if p and ns not in d:
            d[ns] = p
    i = 0
    for ns in L.namespaces_of(t):
        if ns not in d and ns != L.XMLNS:
            while (u'q%d' % i) in d.values():
                i += 1
            d[ns] = STD_PREFIX.get(ns) if STD_PREFIX.get(ns) and STD_PREFIX.get(ns) not in d.values() else u'q%d' % i
    return d


def values_of(t):
    for e in L.elems(t):
        for a in e[3]:
            yield a[2]
        for k in e[4]:
            if k[0] != 'E':
                yield k[1]


def prefixes_in_values(t, prefixes):
    """prefixes that occur as `prefix:` inside some attribute value or text (possible QName-valued content)"""
    used = set()
    ps = set(prefixes.values())
    for v in values_of(t):
        for m in re.finditer(u'([A-Za-z_][\\w.-]*):', v):
            if m.group(1) in ps:
                used.add(m.group(1))
    return used


# ------------------------------------------------------------------------------------------- mutators
def m_reserialise(spec, rng):
    """baseline: same prefixes, blank-separated declarations, the harness' serialiser instead of the producer's"""
    return map_parts(spec, lambda n, t, pm: L.serialise(t, prefixes_for(t, pm)))


def m_prefix_alias(spec, rng):
    """every namespace gets a fresh prefix; the producer's declarations stay on the root (values may use them)"""
    def f(n, t, pm):
        old = prefixes_for(t, pm)
        new = dict((ns, u'n%d' % i) for i, ns in enumerate(sorted(old)))
        return L.serialise(t, new, extra_decls=[(p, ns) for ns, p in sorted(old.items())])
    return map_parts(spec, f)


def m_prefix_rename(spec, rng):
    """fresh prefixes only (no trace of the usual ones) for every namespace whose prefix is not used inside values"""
    def f(n, t, pm):
        old = prefixes_for(t, pm)
        keep = prefixes_in_values(t, old)
        new = {}
        for i, ns in enumerate(sorted(old)):
            new[ns] = old[ns] if old[ns] in keep else u'%s%d' % (rng.choice([u'a', u'ns', u'x', u'odf']), i)
        return L.serialise(t, new)
    return map_parts(spec, f)


def m_prefix_swap(spec, rng):
    """the usual prefixes, bound to each other's namespaces (cyclic shift among those not used inside values)"""
    def f(n, t, pm):
        old = prefixes_for(t, pm)
        keep = prefixes_in_values(t, old)
        free = [ns for ns in sorted(old) if old[ns] not in keep]
        new = dict(old)
        if len(free) > 1:
            k = rng.randint(1, len(free) - 1)
            for i, ns in enumerate(free):
                new[ns] = old[free[(i + k) % len(free)]]
        return L.serialise(t, new)
    return map_parts(spec, f)


def m_default_ns(spec, rng):
    """one vocabulary per part is written with a default namespace declaration (elements unprefixed)"""
    def f(n, t, pm):
        old = prefixes_for(t, pm)
        el_ns = sorted(set(e[1] for e in L.elems(t) if e[1]))
        ns = rng.choice(el_ns)
        return L.serialise(t, old, default_ns=ns)
    return map_parts(spec, f)


def m_decl_newline_all(spec, rng):
    """every xmlns declaration on its own line"""
    return map_parts(spec, lambda n, t, pm: L.serialise(t, prefixes_for(t, pm), seps=[u'\n']))


def m_decl_newline_tab(spec, rng):
    """the first declaration after a blank, every later one after newline + TAB (a common pretty-printer layout)"""
    return map_parts(spec, lambda n, t, pm: L.serialise(t, prefixes_for(t, pm), seps=[u' '] + [u'\n\t'] * 60))


def m_decl_mixed_ws(spec, rng):
    """declarations separated by a random mix of blank / TAB / newline / CRLF / several blanks"""
    def f(n, t, pm):
        seps = [rng.choice([u' ', u' ', u'\t', u'\n', u'\r\n', u'  ', u'\n  ']) for _ in range(40)]
        return L.serialise(t, prefixes_for(t, pm), seps=seps)
    return map_parts(spec, f)


def m_decl_unused_first(spec, rng):
    """the nine prefixes the loader asks for are all declared, blank-separated, whether used or not"""
    extra = [(u'meta', L.METANS), (u'config', L.CONFIGNS), (u'dc', L.DCNS), (u'style', L.STYLENS), (u'svg', L.SVGNS),
             (u'fo', L.FONS), (u'draw', L.DRAWNS), (u'table', L.TABLENS), (u'form', ODF % u'form')]
    def f(n, t, pm):
        old = prefixes_for(t, pm)
        return L.serialise(t, old, extra_decls=[(p, ns) for p, ns in extra if old.get(ns, p) == p and p not in
                                                 [old[x] for x in old if x != ns]])
    return map_parts(spec, f)


def m_root_gt_value(spec, rng):
    """a namespace name with a literal '>' (legal in an attribute value) declared on the root BEFORE the others"""
    return map_parts(spec, lambda n, t, pm: L.serialise(t, prefixes_for(t, pm), root_first=u' xmlns:gtx="urn:x:a>b"'))


def m_decl_spaced_equals(spec, rng):
    """white space around the '=' of every declaration and attribute of the root tag (xmlns:style = "...")"""
    return map_parts(spec, lambda n, t, pm: L.serialise(t, prefixes_for(t, pm), eq=rng.choice([u' = ', u' =', u'= ', u'\t=\n'])))


def m_comment_before_root(spec, rng):
    """a comment in front of the document element that mentions markup (<x y>), and a processing instruction"""
    def f(n, t, pm):
        b = L.serialise(t, prefixes_for(t, pm), prolog=False)
        return (u'<?xml version="1.0" encoding="UTF-8"?>\n<!-- generated; see <office:body> and <a b="c"> -->\n<?pi x?>\n').encode('utf-8') + b
    return map_parts(spec, f)


def m_manifest_reorder(spec, rng):
    m = list(spec['manifest']); rng.shuffle(m)
    mem = list(spec['members']); rng.shuffle(mem)
    return {'mimetype': spec['mimetype'], 'manifest': m, 'members': mem}


def m_manifest_reverse(spec, rng):
    return {'mimetype': spec['mimetype'], 'manifest': list(reversed(spec['manifest'])), 'members': list(spec['members'])}


def m_extra_members(spec, rng):
    """opaque members of several kinds, listed in the manifest: plain file, file in a folder with a folder entry,
    XML file of another vocabulary, an empty file, a name with blanks and non-ASCII, a document signature"""
    extra = [(u'extra.bin', u'application/octet-stream', bytes(bytearray(rng.randrange(256) for _ in range(rng.randint(1, 64))))),
             (u'foo/', u'application/x-foo-folder', None),
             (u'foo/bar.xml', u'text/xml', b'<?xml version="1.0"?>\n<foo:x xmlns:foo="urn:foo"> &amp; </foo:x>\n'),
             (u'foo/empty', u'', b''),
             (u'media/mo vie é.bin', u'video/x-unknown', b'\x00\x01\x02'),
             (u'Basic/Standard/Module1.xml', u'text/xml', b'<x/>'),
             (L.SIGNATURES, u'', b'<dsig/>')]
    rng.shuffle(extra)
    man = list(spec['manifest']); mem = list(spec['members'])
    have = set(p for p, _ in man)
    for p, mt, b in extra:
        if p in have:
            continue
        man.insert(rng.randint(0, len(man)), (p, mt))
        if b is not None:
            mem.insert(rng.randint(0, len(mem)), (p, b))
    return {'mimetype': spec['mimetype'], 'manifest': man, 'members': mem}


def _edit_body(spec, edit, part=u'content.xml', top_only=True):
    def f(n, t, pm):
        if top_only and n != part:
            return None
        pf = prefixes_for(t, pm)
        t2 = edit(t)
        for ns in L.namespaces_of(t2):
            if ns not in pf and ns != L.XMLNS:
                pf[ns] = STD_PREFIX.get(ns) if STD_PREFIX.get(ns) and STD_PREFIX[ns] not in pf.values() else u'frgn%d' % len(pf)
        return L.serialise(t2, pf)
    return map_parts(spec, f, only=[part])


def _map_tree(t, fn):
    """rebuild a tree bottom-up; fn(element) -> element"""
    if t[0] != 'E':
        return t
    return fn(('E', t[1], t[2], list(t[3]), [_map_tree(k, fn) for k in t[4]]))


def m_foreign_attrs(spec, rng):
    """unqualified and foreign-namespace attributes on elements inside the body, and a foreign child element"""
    state = {'in': 0}
    def fn(e):
        if e[1] in (L.TEXTNS, L.TABLENS, L.DRAWNS) and rng.random() < 0.3:
            at = list(e[3])
            if rng.random() < 0.6: at.append((u'', u'data-x', rng.choice([u'1', u'a b', u'<&>"', u'', u'"both\' kinds"'])))
            if rng.random() < 0.6: at.append((FOREIGN, u'note', rng.choice([u'v', u'tab\there', u'é'])))
            kids = list(e[4])
            if rng.random() < 0.3 and e[2] in ('p', 'h', 'span'):
                kids.append(('E', FOREIGN, u'mark', [(u'', u'id', u'm1')], [('T', u' foreign ')]))
            return ('E', e[1], e[2], at, kids)
        return e
    def edit(t):
        body = L.kid(t, L.OFFICENS, 'body')
        if body is None:
            return t
        nb = _map_tree(body, fn)
        return ('E', t[1], t[2], t[3], [nb if k is body else k for k in t[4]])
    return _edit_body(spec, edit)


def m_section_attrs(spec, rng):
    """attributes on the section elements themselves (office:body, office:styles, office:meta ...)"""
    def edit(t):
        kids = []
        for k in t[4]:
            if k[0] == 'E' and k[1] == L.OFFICENS and k[2] in ('body', 'styles', 'master-styles', 'settings', 'meta'):
                kids.append(('E', k[1], k[2], list(k[3]) + [(FOREIGN, u'generator-hint', u'1'), (L.XMLNS, u'id', u'sec-' + k[2])], k[4]))
            else:
                kids.append(k)
        return ('E', t[1], t[2], t[3], kids)
    s = spec
    for part in L.PARTS:
        s = _edit_body(s, edit, part=part)
    return s


def m_content_only_fonts(spec, rng):
    """a font declared in content.xml only (styles.xml keeps its own list)"""
    font = ('E', L.STYLENS, u'font-face', [(L.STYLENS, u'name', u'Harness Only Font'), (L.SVGNS, u'font-family', u"'Harness Only Font'")], [])
    def edit(t):
        kids = list(t[4])
        ff = L.kid(t, L.OFFICENS, 'font-face-decls')
        if ff is None:
            i = 0
            while i < len(kids) and not (kids[i][0] == 'E' and kids[i][2] in ('automatic-styles', 'body')):
                i += 1
            kids.insert(i, ('E', L.OFFICENS, u'font-face-decls', [], [font]))
        else:
            kids = [('E', k[1], k[2], k[3], list(k[4]) + [font]) if k is ff else k for k in kids]
        return ('E', t[1], t[2], t[3], kids)
    return _edit_body(spec, edit)


def m_fonts_moved_to_content(spec, rng):
    """all font declarations live in content.xml; styles.xml has none"""
    fonts = []
    def grab(n, t, pm):
        if n == u'styles.xml':
            ff = L.kid(t, L.OFFICENS, 'font-face-decls')
            if ff is not None:
                fonts.extend(k for k in ff[4] if k[0] == 'E')
                t2 = ('E', t[1], t[2], t[3], [k for k in t[4] if k is not ff])
                return L.serialise(t2, prefixes_for(t, pm))
        return None
    s = map_parts(spec, grab, only=[u'styles.xml'])
    def edit(t):
        ff = L.kid(t, L.OFFICENS, 'font-face-decls')
        kids = list(t[4])
        if ff is None:
            if not fonts:
                return t
            i = 0
            while i < len(kids) and not (kids[i][0] == 'E' and kids[i][2] in ('automatic-styles', 'body')):
                i += 1
            kids.insert(i, ('E', L.OFFICENS, u'font-face-decls', [], list(fonts)))
        else:
            have = [L.norm(k) for k in ff[4] if k[0] == 'E']
            add = [f for f in fonts if L.norm(f) not in have]
            kids = [('E', k[1], k[2], k[3], list(k[4]) + add) if k is ff else k for k in kids]
        return ('E', t[1], t[2], t[3], kids)
    return _edit_body(s, edit)


def m_name_with_space(spec, rng):
    """draw:name values as office suites write them: 'Subtitle 2', 'Grafik 1', 'a:b'"""
    vals = [u'Subtitle 2', u'Grafik 1', u'a:b', u'Bild 12 (Kopie)', u'1st']
    hit = {'n': 0}
    def fn(e):
        if e[1] == L.DRAWNS and e[2] in ('frame', 'custom-shape', 'page', 'rect', 'image', 'g', 'line', 'text-box', 'object'):
            at = [a for a in e[3] if (a[0], a[1]) != (L.DRAWNS, 'name')]
            if e[2] not in ('image', 'text-box', 'object'):
                hit['n'] += 1
                at.append((L.DRAWNS, u'name', rng.choice(vals)))
                return ('E', e[1], e[2], at, e[4])
        return e
    def edit(t):
        t2 = _map_tree(t, fn)
        if hit['n'] == 0:
            # no shape in the document: add a frame with a name to the first paragraph / cell / page
            done = {'d': False}
            def add(e):
                if not done['d'] and e[1] == L.TEXTNS and e[2] == 'p':
                    done['d'] = True
                    fr = ('E', L.DRAWNS, u'frame', [(L.DRAWNS, u'name', rng.choice(vals)), (L.TEXTNS, u'anchor-type', u'as-char'),
                                                     (L.SVGNS, u'width', u'1cm'), (L.SVGNS, u'height', u'1cm')],
                          [('E', L.DRAWNS, u'text-box', [], [('E', L.TEXTNS, u'p', [], [('T', u'x')])])])
                    return ('E', e[1], e[2], e[3], list(e[4]) + [fr])
                return e
            t2 = _map_tree(t2, add)
        return t2
    return _edit_body(spec, edit)


def m_text_mentions_xmlns(spec, rng):
    """character data and an attribute value that contain the words ' xmlns:' (a document ABOUT XML), declarations
    newline-separated"""
    done = {'d': False}
    def fn(e):
        if not done['d'] and e[1] == L.TEXTNS and e[2] in ('p', 'h'):
            done['d'] = True
            return ('E', e[1], e[2], e[3], [('T', u'declare it with xmlns:foo="urn:foo" on the root')] + list(e[4]))
        return e
    def f(n, t, pm):
        if n != u'content.xml':
            return None
        return L.serialise(_map_tree(t, fn), prefixes_for(t, pm), seps=[u'\n'])
    return map_parts(spec, f, only=[u'content.xml'])


def m_text_mentions_xmlns_blank(spec, rng):
    """the same sentence in a package whose declarations are blank-separated (the usual layout)"""
    done = {'d': False}
    def fn(e):
        if not done['d'] and e[1] == L.TEXTNS and e[2] in ('p', 'h'):
            done['d'] = True
            return ('E', e[1], e[2], e[3], list(e[4]) + [('T', u' (declare it with xmlns:foo="urn:foo" on the root)')])
        return e
    def f(n, t, pm):
        if n != u'content.xml':
            return None
        return L.serialise(_map_tree(t, fn), prefixes_for(t, pm))
    return map_parts(spec, f, only=[u'content.xml'])


def m_inline_document(spec, rng):
    """draw:object elements that hold their document INLINE (office:document with its own office:meta, office:settings,
    office:styles, office:font-face-decls, office:body ...), which the schema allows instead of an xlink:href: one at
    the first paragraph, one NESTED inside the inline document's own body, in the content.xml of the top document and
    of every sub-document"""
    def inline(depth):
        cell = [('E', L.TEXTNS, u'p', [], [('T', u'inner %d' % depth)])]
        if depth > 0:
            cell.append(('E', L.TEXTNS, u'p', [], [('E', L.DRAWNS, u'frame', [(L.DRAWNS, u'name', u'inline%d' % depth), (L.SVGNS, u'width', u'1cm'), (L.SVGNS, u'height', u'1cm')],
                         [('E', L.DRAWNS, u'object', [], [inline(depth - 1)])])]))
        return ('E', L.OFFICENS, u'document', [(L.OFFICENS, u'mimetype', u'application/vnd.oasis.opendocument.spreadsheet'), (L.OFFICENS, u'version', u'1.2')], [
            ('E', L.OFFICENS, u'meta', [], [('E', L.DCNS, u'title', [], [('T', u'inner title %d' % depth)])]),
            ('E', L.OFFICENS, u'settings', [], [('E', L.CONFIGNS, u'config-item-set', [(L.CONFIGNS, u'name', u'inner%d' % depth)], [])]),
            ('E', L.OFFICENS, u'font-face-decls', [], [('E', L.STYLENS, u'font-face', [(L.STYLENS, u'name', u'Inner Font %d' % depth)], [])]),
            ('E', L.OFFICENS, u'styles', [], [('E', L.STYLENS, u'style', [(L.STYLENS, u'name', u'InnerStyle%d' % depth), (L.STYLENS, u'family', u'table-cell')], [])]),
            ('E', L.OFFICENS, u'automatic-styles', [], []),
            ('E', L.OFFICENS, u'body', [], [('E', L.OFFICENS, u'spreadsheet', [], [('E', L.TABLENS, u'table', [(L.TABLENS, u'name', u'inner%d' % depth)], [
                ('E', L.TABLENS, u'table-column', [], []), ('E', L.TABLENS, u'table-row', [], [('E', L.TABLENS, u'table-cell', [], cell)])])])])])
    def edit(t):
        done = {'d': False}
        def fn(e):
            if not done['d'] and e[1] == L.TEXTNS and e[2] == 'p':
                done['d'] = True
                fr = ('E', L.DRAWNS, u'frame', [(L.DRAWNS, u'name', u'inline top'), (L.TEXTNS, u'anchor-type', u'as-char'),
                                                 (L.SVGNS, u'width', u'2cm'), (L.SVGNS, u'height', u'2cm')],
                      [('E', L.DRAWNS, u'object', [], [inline(rng.choice([0, 1, 2]))])])
                return ('E', e[1], e[2], e[3], list(e[4]) + [fr, ('T', u' after the inline object')])
            return e
        body = L.kid(t, L.OFFICENS, 'body')
        if body is None:
            return t
        return ('E', t[1], t[2], t[3], [_map_tree(k, fn) if k is body else k for k in t[4]])
    return _edit_body(spec, edit, top_only=False)


def m_fonts_differ(spec, rng):
    """content.xml and styles.xml declare DIFFERENT fonts under one style:name (the copy in content.xml gets another
    svg:font-family)"""
    def edit(t):
        ff = L.kid(t, L.OFFICENS, 'font-face-decls')
        if ff is None or not [k for k in ff[4] if k[0] == 'E']:
            return t
        first = [k for k in ff[4] if k[0] == 'E'][0]
        alt = ('E', first[1], first[2], [a for a in first[3] if (a[0], a[1]) != (L.SVGNS, 'font-family')] + [(L.SVGNS, u'font-family', u"'Another Family'")], first[4])
        return ('E', t[1], t[2], t[3], [('E', k[1], k[2], k[3], [alt if x is first else x for x in k[4]]) if k is ff else k for k in t[4]])
    return _edit_body(spec, edit)


def m_fonts_styles_only(spec, rng):
    """font declarations in styles.xml only: content.xml has no office:font-face-decls"""
    def edit(t):
        return ('E', t[1], t[2], t[3], [k for k in t[4] if not (k[0] == 'E' and (k[1], k[2]) == (L.OFFICENS, 'font-face-decls'))])
    return _edit_body(spec, edit, top_only=False)


def m_object_renumber(spec, rng):
    """the object folders get other numbers (Object 7, Object 12 ...), references follow"""
    tops = unique(p for p, _ in spec['manifest'] if re.match(u'^Object \\d+/$', p or u''))
    if not tops:
        return None
    nums = rng.sample([3, 5, 7, 8, 9, 12, 21, 42], len(tops)) if len(tops) <= 8 else None
    if nums is None:
        return None
    ren = dict((o[:-1], u'Object %d' % k) for o, k in zip(tops, nums))
    def rn(path):
        for o, k in ren.items():
            if path == o or path.startswith(o + u'/'):
                return k + path[len(o):]
        return path
    def fn(e):
        at = []
        for a in e[3]:
            v = a[2]
            if (a[0], a[1]) == (L.XLINKNS, 'href'):
                for o, k in ren.items():
                    if v in (u'./' + o, o, u'./' + o + u'/'):
                        v = v.replace(o, k)
            at.append((a[0], a[1], v))
        return ('E', e[1], e[2], at, e[4])
    s = map_parts(spec, lambda n, t, pm: L.serialise(_map_tree(t, fn), prefixes_for(t, pm)) if n == u'content.xml' else None,
                  only=[u'content.xml'])
    return {'mimetype': s['mimetype'], 'manifest': [(rn(p), mt) for p, mt in s['manifest']],
            'members': [(rn(n), b) for n, b in s['members']]}


def m_attr_both_quotes(spec, rng):
    """attribute values that contain BOTH kinds of quotation mark (formulas, string values, names): the writer has to
    escape one of them"""
    vals = [u'She said "don\'t"', u'of:=IF([.A1]="it\'s";1;2)', u'"\'', u'\'"\'"', u'a & "b" <c> \'d\'']
    n = {'k': 0}
    def fn(e):
        if n['k'] < 6 and e[1] in (L.TEXTNS, L.TABLENS, L.DRAWNS) and rng.random() < 0.5:
            n['k'] += 1
            at = [a for a in e[3]]
            at.append((u'', u'title', rng.choice(vals)))
            # and an existing free-text attribute of the vocabulary, if there is one (names are left alone: several
            # *:name attributes are NCName-typed in the schema)
            at = [(a[0], a[1], a[2] + u' ' + rng.choice(vals)) if (a[0], a[1]) in ((L.OFFICENS, u'string-value'), (L.TABLENS, u'formula'), (L.OFFICENS, u'title'), (L.XLINKNS, u'title')) else a for a in at]
            return ('E', e[1], e[2], at, e[4])
        return e
    def edit(t):
        t2 = _map_tree(t, fn)
        if n['k'] == 0:
            done = {'d': False}
            def add(e):
                if not done['d'] and e[0] == 'E' and e[4]:
                    done['d'] = True
                    return ('E', e[1], e[2], list(e[3]) + [(u'', u'title', vals[0])], e[4])
                return e
            t2 = _map_tree(t2, add)
        return t2
    s = spec
    for part in (u'content.xml', u'styles.xml', u'settings.xml', u'meta.xml'):
        n['k'] = 0
        s = _edit_body(s, edit, part=part)
    return s


def m_class_names(spec, rng):
    """text:class-names / draw:class-names with two names (white-space separated list, schema type styleNameRefs)"""
    def fn(e):
        if e[1] == L.TEXTNS and e[2] in ('span', 'p', 'h') and not any((a[0], a[1]) == (L.TEXTNS, 'class-names') for a in e[3]):
            return ('E', e[1], e[2], list(e[3]) + [(L.TEXTNS, u'class-names', rng.choice([u'T1 T2', u'P1', u'Standard Heading']))], e[4])
        return e
    return _edit_body(spec, lambda t: _map_tree(t, fn))


REJECTED = [  # schema-valid (element, attribute, value) the bound converter refuses (class KF-C15-6: unprefixed QName)
    ((L.DRAWNS, u'custom-shape'), (L.DRAWNS, u'engine'), u'myengine'),
    ((ODF % u'chart', u'chart'), (ODF % u'chart', u'class'), u'bar'),
]


def m_converter_rejects(spec, rng):
    """one schema-valid attribute value that the library's converter refuses: a custom shape whose draw:engine is a
    QName without prefix (xsd:QName allows it)"""
    (eq, aq, v) = REJECTED[0]
    done = {'d': False}
    def fn(e):
        if not done['d'] and e[1] == L.TEXTNS and e[2] == 'p':
            done['d'] = True
            shape = ('E', eq[0], eq[1], [(aq[0], aq[1], v), (L.SVGNS, u'width', u'1cm'), (L.SVGNS, u'height', u'1cm'),
                                         (L.TEXTNS, u'anchor-type', u'as-char')], [])
            return ('E', e[1], e[2], e[3], list(e[4]) + [shape])
        return e
    return _edit_body(spec, lambda t: _map_tree(t, fn))


def m_cdata(spec, rng):
    """some character data written as CDATA sections (same infoset)"""
    def fn(e):
        kids = [('C', k[1]) if k[0] == 'T' and u']]>' not in k[1] and rng.random() < 0.5 else k for k in e[4]]
        return ('E', e[1], e[2], e[3], kids)
    return map_parts(spec, lambda n, t, pm: L.serialise(_map_tree(t, fn), prefixes_for(t, pm)))


def m_pretty_print(spec, rng):
    """indentation between the children of every element that has element children only"""
    def ind(t, d):
        if t[0] != 'E':
            return t
        kids = [ind(k, d + 1) for k in t[4]]
        if kids and all(k[0] == 'E' for k in kids):
            out = []
            for k in kids:
                out.append(('T', u'\n' + u'  ' * (d + 1))); out.append(k)
            out.append(('T', u'\n' + u'  ' * d))
            kids = out
        return ('E', t[1], t[2], t[3], kids)
    return map_parts(spec, lambda n, t, pm: L.serialise(ind(t, 0), prefixes_for(t, pm)))


MUTATORS = [
    ('reserialise', m_reserialise), ('prefix-alias', m_prefix_alias), ('prefix-rename', m_prefix_rename),
    ('prefix-swap', m_prefix_swap), ('default-ns', m_default_ns), ('decl-newline-all', m_decl_newline_all),
    ('decl-newline-tab', m_decl_newline_tab), ('decl-mixed-ws', m_decl_mixed_ws), ('decl-unused', m_decl_unused_first),
    ('root-gt-value', m_root_gt_value), ('decl-spaced-equals', m_decl_spaced_equals), ('comment-before-root', m_comment_before_root),
    ('root-gt-value', m_root_gt_value), ('decl-spaced-equals', m_decl_spaced_equals), ('comment-before-root', m_comment_before_root),
    ('manifest-reorder', m_manifest_reorder), ('manifest-reverse', m_manifest_reverse), ('extra-members', m_extra_members),
    ('foreign-attrs', m_foreign_attrs), ('section-attrs', m_section_attrs), ('content-only-fonts', m_content_only_fonts),
    ('fonts-in-content', m_fonts_moved_to_content), ('name-with-space', m_name_with_space),
    ('text-mentions-xmlns', m_text_mentions_xmlns), ('object-renumber', m_object_renumber),
    ('text-mentions-xmlns-blank', m_text_mentions_xmlns_blank), ('inline-document', m_inline_document),
    ('attr-both-quotes', m_attr_both_quotes), ('class-names', m_class_names), ('converter-rejects', m_converter_rejects), ('cdata', m_cdata), ('pretty-print', m_pretty_print),
]


# ------------------------------------------------------------------------------------------- synthetic packages
def E(ns, local, attrs=(), kids=()):
    return ('E', ns, local, list(attrs), list(kids))


TEXTS = [u'plain', u' ', u'  two  blanks ', u'\n', u'\t', u'a\rb', u'<&>"\'', u'é\U0001F600', u'x]]>y', u'line\nbreak', u' lead', u'trail ']


def syn_inline(rng, depth=2):
    kids = []
    for _ in range(rng.randint(0, 4)):
        r = rng.random()
        if r < 0.5 or depth == 0:
            kids.append(('T', rng.choice(TEXTS)))
        elif r < 0.8:
            kids.append(E(L.TEXTNS, u'span', [(L.TEXTNS, u'style-name', rng.choice([u'T1', u'T2']))], syn_inline(rng, depth - 1)))
        elif r < 0.9:
            kids.append(E(L.TEXTNS, u's', [(L.TEXTNS, u'c', u'%d' % rng.randint(1, 5))]))
        else:
            kids.append(E(L.TEXTNS, u'a', [(L.XLINKNS, u'href', u'http://example.org/?a=1&b=2'), (L.XLINKNS, u'type', u'simple')], syn_inline(rng, depth - 1)))
    return kids


def syn_doc(rng, kind=u'text', objects=(), pictures=(), ws=True):
    """(content, styles, meta, settings) trees of a small document written the way a foreign producer might"""
    sp = (lambda: [('T', rng.choice([u'\n', u'\n  ', u' ']))] if ws and rng.random() < 0.5 else [])
    paras = []
    for i in range(rng.randint(1, 5)):
        paras += sp()
        paras.append(E(L.TEXTNS, rng.choice([u'p', u'p', u'h']), [(L.TEXTNS, u'style-name', rng.choice([u'P1', u'P2', u'Standard']))], syn_inline(rng)))
    for i, o in enumerate(objects):
        paras.append(E(L.TEXTNS, u'p', [], [E(L.DRAWNS, u'frame', [(L.DRAWNS, u'name', u'obj%d' % i), (L.SVGNS, u'width', u'2cm'), (L.SVGNS, u'height', u'2cm')],
                      [E(L.DRAWNS, u'object', [(L.XLINKNS, u'href', u'./' + o), (L.XLINKNS, u'type', u'simple')])])]))
    for i, pth in enumerate(pictures):
        paras.append(E(L.TEXTNS, u'p', [], [E(L.DRAWNS, u'frame', [(L.DRAWNS, u'name', u'pic%d' % i), (L.SVGNS, u'width', u'1cm'), (L.SVGNS, u'height', u'1cm')],
                      [E(L.DRAWNS, u'image', [(L.XLINKNS, u'href', pth), (L.XLINKNS, u'type', u'simple')])])]))
    paras += sp()
    if kind == u'text':
        inner = E(L.OFFICENS, u'text', [], paras)
    elif kind == u'spreadsheet':
        rows = [E(L.TABLENS, u'table-row', [], [E(L.TABLENS, u'table-cell', [(L.OFFICENS, u'value-type', u'string'), (L.TABLENS, u'style-name', u'ce1')], [p])])
                for p in paras if p[0] == 'E']
        inner = E(L.OFFICENS, u'spreadsheet', [], [E(L.TABLENS, u'table', [(L.TABLENS, u'name', u'Sheet 1')], [E(L.TABLENS, u'table-column', [])] + rows)])
    else:
        frames = [E(L.DRAWNS, u'frame', [(L.SVGNS, u'width', u'5cm'), (L.SVGNS, u'height', u'1cm'), (L.DRAWNS, u'style-name', u'gr1')],
                    [E(L.DRAWNS, u'text-box', [], [p])]) for p in paras if p[0] == 'E']
        inner = E(L.OFFICENS, u'presentation' if kind == u'presentation' else u'drawing', [],
                  [E(L.DRAWNS, u'page', [(L.DRAWNS, u'name', u'page1'), (L.DRAWNS, u'master-page-name', u'Default')], frames)])
    def st(name, fam, props=()):
        return E(L.STYLENS, u'style', [(L.STYLENS, u'name', name), (L.STYLENS, u'family', fam)], list(props))
    tp = E(L.STYLENS, u'text-properties', [(L.FONS, u'font-weight', u'bold'), (L.STYLENS, u'font-name', u'Syn Sans')])
    auto = [st(u'P1', u'paragraph', [E(L.STYLENS, u'paragraph-properties', [(L.FONS, u'margin-left', u'1cm')])]),
            st(u'P2', u'paragraph', [tp]), st(u'T1', u'text', [tp]), st(u'T2', u'text'), st(u'ce1', u'table-cell'),
            st(u'gr1', u'graphic'), st(u'Unused9', u'text')]
    font = E(L.STYLENS, u'font-face', [(L.STYLENS, u'name', u'Syn Sans'), (L.SVGNS, u'font-family', u"'Syn Sans'")],
             [E(L.SVGNS, u'font-face-src', [], [E(L.SVGNS, u'font-face-uri', [(L.XLINKNS, u'href', u'Fonts/syn.ttf'), (L.XLINKNS, u'type', u'simple')],
                                                [E(L.SVGNS, u'font-face-format', [(L.SVGNS, u'string', u'truetype')])])])] if rng.random() < 0.6 else [])
    content = E(L.OFFICENS, u'document-content', [(L.OFFICENS, u'version', u'1.2')],
                sp() + [E(L.OFFICENS, u'scripts')] + sp() + [E(L.OFFICENS, u'font-face-decls', [], [font])] + sp()
                + [E(L.OFFICENS, u'automatic-styles', [], auto)] + sp() + [E(L.OFFICENS, u'body', [], sp() + [inner] + sp())] + sp())
    pl = E(L.STYLENS, u'page-layout', [(L.STYLENS, u'name', u'pm1')], [E(L.STYLENS, u'page-layout-properties', [(L.FONS, u'page-width', u'21cm')])])
    hstyle = st(u'HP1', u'paragraph', [tp])
    master = E(L.STYLENS, u'master-page', [(L.STYLENS, u'name', u'Default'), (L.STYLENS, u'page-layout-name', u'pm1')],
               [E(L.STYLENS, u'header', [], sp() + [E(L.TEXTNS, u'p', [(L.TEXTNS, u'style-name', u'HP1')], syn_inline(rng, 1))] + sp())])
    styles = E(L.OFFICENS, u'document-styles', [(L.OFFICENS, u'version', u'1.2')],
               [E(L.OFFICENS, u'font-face-decls', [], [font]),
                E(L.OFFICENS, u'styles', [], sp() + [st(u'Standard', u'paragraph'), E(L.STYLENS, u'default-style', [(L.STYLENS, u'family', u'paragraph')], [tp])] + sp()),
                E(L.OFFICENS, u'automatic-styles', [], [pl, hstyle, st(u'HUnused', u'paragraph')]),
                E(L.OFFICENS, u'master-styles', [], sp() + [master] + sp())])
    meta = E(L.OFFICENS, u'document-meta', [(L.OFFICENS, u'version', u'1.2')], [E(L.OFFICENS, u'meta', [], sp() + [
        E(L.METANS, u'generator', [], [('T', u'SynProducer/1.0 (independent serialiser)')]),
        E(L.DCNS, u'title', [], [('T', rng.choice(TEXTS))]), sp() and ('T', u'\n') or ('T', u''),
        E(L.METANS, u'user-defined', [(L.METANS, u'name', u'Info 1')], [('T', u'v 1')]),
        E(L.METANS, u'document-statistic', [(L.METANS, u'page-count', u'1')])] + sp())])
    meta = ('E', meta[1], meta[2], meta[3], [('E', k[1], k[2], k[3], [x for x in k[4] if x != ('T', u'')]) if k[0] == 'E' else k for k in meta[4]])
    settings = E(L.OFFICENS, u'document-settings', [(L.OFFICENS, u'version', u'1.2')], [E(L.OFFICENS, u'settings', [], sp() + [
        E(L.CONFIGNS, u'config-item-set', [(L.CONFIGNS, u'name', u'ooo:view-settings')], [
            E(L.CONFIGNS, u'config-item', [(L.CONFIGNS, u'name', u'ViewAreaTop'), (L.CONFIGNS, u'type', u'int')], [('T', u'0')]),
            E(L.CONFIGNS, u'config-item', [(L.CONFIGNS, u'name', u'Blank'), (L.CONFIGNS, u'type', u'string')], [('T', u'  ')])])] + sp())])
    return content, styles, meta, settings


MT = {u'text': u'application/vnd.oasis.opendocument.text', u'spreadsheet': u'application/vnd.oasis.opendocument.spreadsheet',
      u'presentation': u'application/vnd.oasis.opendocument.presentation', u'drawing': u'application/vnd.oasis.opendocument.graphics'}


def synthetic(rng, shape='plain'):
    """a whole package from the harness' serialiser.  shape: plain | objects | nested | objpics | gap | long"""
    kind = rng.choice([u'text', u'text', u'spreadsheet', u'presentation', u'drawing'])
    man = []; mem = []
    def ser(t):
        pf = dict((ns, STD_PREFIX.get(ns, u'p%d' % i)) for i, ns in enumerate(L.namespaces_of(t)))
        return L.serialise(t, pf)
    objs = {'plain': [], 'many': [u'Object %d' % k for k in range(1, 12)], 'objects': [u'Object 1', u'Object 2'], 'nested': [u'Object 1'], 'objpics': [u'Object 1'],
            'gap': [u'Object 2', u'Object 5'], 'long': [u'Object 1', u'Object 100'], 'order': [u'Object 2', u'Object 1']}[shape]
    pics = [u'Pictures/img %d.png' % i for i in range(rng.randint(0, 2))]
    c, s, m, st = syn_doc(rng, kind, objs, pics)
    man.append((u'/', MT[kind]))
    for n, t in ((u'content.xml', c), (u'styles.xml', s), (u'meta.xml', m), (u'settings.xml', st)):
        man.append((n, u'text/xml')); mem.append((n, ser(t)))
    for p in pics:
        man.append((p, rng.choice([u'image/png', u'image/png', u''])))
        mem.append((p, b'\x89PNG\r\n' + bytes(bytearray(rng.randrange(256) for _ in range(20)))))
    def add_obj(folder, depth):
        k = rng.choice([u'spreadsheet', u'drawing', u'text'])
        sub = []
        opics = []
        if shape == 'nested' and depth == 0:
            sub = [u'Object 1']
        if shape == 'objpics':
            opics = [u'Pictures/o.png']
        c, s, m, st = syn_doc(rng, k, sub, opics)
        man.append((folder + u'/', MT[k]))
        for n, t in ((u'content.xml', c), (u'styles.xml', s)):
            man.append((folder + u'/' + n, u'text/xml')); mem.append((folder + u'/' + n, ser(t)))
        if rng.random() < 0.5:
            man.append((folder + u'/settings.xml', u'text/xml')); mem.append((folder + u'/settings.xml', ser(st)))
        for p in opics:
            man.append((folder + u'/' + p, u'image/png')); mem.append((folder + u'/' + p, b'\x89PNGo'))
        for x in sub:
            add_obj(folder + u'/' + x, depth + 1)
    for o in objs:
        add_obj(o, 0)
    return {'mimetype': MT[kind], 'manifest': man, 'members': mem}


# ------------------------------------------------------------------------------------------- the witnesses of Props/C05.lean
W1 = (u"<?xml version='1.0' encoding='UTF-8'?>\n<o:document-content xmlns:o=\"" + L.OFFICENS + u"\"\n\txmlns:meta=\"urn:m\">"
      u"<o:body><u:p xmlns:u=\"u\"/></o:body></o:document-content>")
W2 = (u"<?xml version='1.0' encoding='UTF-8'?>\n<o:document-content\nxmlns:o=\"" + L.OFFICENS + u"\"><o:body><u:p\nxmlns:u=\"u\">"
      u"say xmlns:x</u:p></o:body></o:document-content>")


W4 = (u"<?xml version='1.0' encoding='UTF-8'?>\n<o:document-content xmlns:o=\"" + L.OFFICENS + u"\" xmlns:x=\"a>b\" xmlns:meta=\"urn:m\">"
      u"<o:body><u:p xmlns:u=\"u\"/></o:body></o:document-content>")


def witness(which):
    """a minimal package around the content.xml used in fix_finding_duplicate_xmlns (w1) / fix_finding_splice_in_text (w2)"""
    content = {'w1': W1, 'w2': W2, 'w4': W4}[which].encode('utf-8')
    return {'mimetype': MT[u'text'], 'manifest': [(u'/', MT[u'text']), (u'content.xml', u'text/xml')],
            'members': [(u'content.xml', content)]}


# ------------------------------------------------------------------------------------------- round 2 additions
def m_same_name_kinds(spec, rng):
    """two automatic styles of DIFFERENT kinds under one name (style:name is unique per kind only): a text:list-style
    gets the name of a referenced automatic style:style of content.xml; its level refers to a text style that nothing
    else refers to; a list in the body uses it"""
    def edit(t):
        au = L.kid(t, L.OFFICENS, 'automatic-styles'); body = L.kid(t, L.OFFICENS, 'body')
        if au is None or body is None:
            return t
        refs = set(); L.refs_in(body, refs)
        cands = [k for k in au[4] if k[0] == 'E' and (k[1], k[2]) == (L.STYLENS, 'style') and L.style_name(k) in refs]
        if not cands:
            return t
        target = rng.choice(cands); nm = L.style_name(target)
        only = nm + u'_only'
        ls = ('E', L.TEXTNS, u'list-style', [(L.STYLENS, u'name', nm)],
              [('E', L.TEXTNS, u'list-level-style-number', [(L.TEXTNS, u'level', u'1'), (L.TEXTNS, u'style-name', only), (L.STYLENS, u'num-format', u'1')], [])])
        lonely = ('E', L.STYLENS, u'style', [(L.STYLENS, u'name', only), (L.STYLENS, u'family', u'text')],
                  [('E', L.STYLENS, u'text-properties', [(L.FONS, u'font-weight', u'bold')], [])])
        kids = []
        before = rng.random() < 0.5
        for k in au[4]:
            if k is target and before: kids.append(ls)
            kids.append(k)
            if k is target and not before: kids.append(ls)
        kids.append(lonely)
        nau = ('E', au[1], au[2], au[3], kids)
        lst = ('E', L.TEXTNS, u'list', [(L.TEXTNS, u'style-name', nm)],
               [('E', L.TEXTNS, u'list-item', [], [('E', L.TEXTNS, u'p', [], [('T', u'same name, other kind')])])])
        done = {'d': False}
        def add(e):
            if not done['d'] and any(k[0] == 'E' and (k[1], k[2]) == (L.TEXTNS, 'p') for k in e[4]) and \
                    (e[1], e[2]) in ((L.OFFICENS, 'text'), (L.TABLENS, 'table-cell'), (L.DRAWNS, 'text-box'), (L.TEXTNS, 'section'), (L.TEXTNS, 'list-item')):
                done['d'] = True
                return ('E', e[1], e[2], e[3], list(e[4]) + [lst])
            return e
        nbody = _map_tree(body, add)
        if not done['d']:
            return t
        return ('E', t[1], t[2], t[3], [nau if k is au else nbody if k is body else k for k in t[4]])
    return _edit_body(spec, edit)


def m_replicate_objects(spec, rng):
    """the first embedded object is replicated so that the package has 10-12 objects (Object 1 .. Object n, listed in
    numeric order), each with its own text in its first paragraph and its own frame in the top document's body"""
    tops = unique(p for p, _ in spec['manifest'] if re.match(u'^Object \\d+/$', p or u''))
    if not tops:
        return None
    src = tops[0]
    n = rng.randint(10, 12)
    have = set(tops)
    man = list(spec['manifest']); mem = list(spec['members'])
    new = [u'Object %d/' % k for k in range(1, n + 1) if u'Object %d/' % k not in have]
    def mark(tag):
        st = {'d': False}
        def fn(e):
            if not st['d'] and (e[1], e[2]) == (L.TEXTNS, 'p'):
                st['d'] = True
                return ('E', e[1], e[2], e[3], [('T', u'copy for ' + tag)] + list(e[4]))
            return e
        return fn
    for o in new:
        for p, mt in spec['manifest']:
            if p == src or (p.startswith(src) and p[len(src):] in L.PARTS):
                man.append((o + p[len(src):], mt))
        for nme, b in spec['members']:
            if nme.startswith(src) and nme[len(src):] in L.PARTS:
                if nme.endswith(u'content.xml'):
                    t = L.parse_xml(b); pm = L.prefix_map(b)
                    body = L.kid(t, L.OFFICENS, 'body')
                    t2 = ('E', t[1], t[2], t[3], [_map_tree(k, mark(o)) if k is body else k for k in t[4]])
                    if t2 == t:      # no paragraph: mark the child of the body with a foreign attribute
                        t2 = ('E', t[1], t[2], t[3], [('E', k[1], k[2], k[3], [('E', kk[1], kk[2], list(kk[3]) + [(FOREIGN, u'copy', o)], kk[4]) if kk[0] == 'E' else kk for kk in k[4]]) if k is body else k for k in t[4]])
                    pf = prefixes_for(t2, pm)
                    for ns in L.namespaces_of(t2):
                        if ns not in pf and ns != L.XMLNS:
                            pf[ns] = u'frgn%d' % len(pf)
                    b = L.serialise(t2, pf)
                mem.append((o + nme[len(src):], b))
    def fn_top(t):
        st = {'d': False}
        def fn(e):
            if not st['d'] and (e[1], e[2]) in ((L.DRAWNS, 'page'), (L.OFFICENS, 'text'), (L.TABLENS, 'shapes')):
                st['d'] = True
                frames = [('E', L.DRAWNS, u'frame', [(L.DRAWNS, u'name', u'copy %s' % o[:-1]), (L.SVGNS, u'width', u'2cm'), (L.SVGNS, u'height', u'2cm'), (L.SVGNS, u'x', u'1cm'), (L.SVGNS, u'y', u'1cm')],
                           [('E', L.DRAWNS, u'object', [(L.XLINKNS, u'href', u'./' + o[:-1]), (L.XLINKNS, u'type', u'simple'), (L.XLINKNS, u'show', u'embed'), (L.XLINKNS, u'actuate', u'onLoad')], [])]) for o in new]
                if (e[1], e[2]) == (L.OFFICENS, 'text'):
                    frames = [('E', L.TEXTNS, u'p', [], [f]) for f in frames]
                return ('E', e[1], e[2], e[3], list(e[4]) + frames)
            return e
        return _map_tree(t, fn)
    def key(e):
        mm = re.match(u'^Object (\\d+)/', e[0] or u'')
        return (int(mm.group(1)), e[0])
    objs = sorted([e for e in man if re.match(u'^Object \\d+/', e[0] or u'')], key=key)
    s2 = {'mimetype': spec['mimetype'], 'members': mem,
          'manifest': [e for e in man if not re.match(u'^Object \\d+/', e[0] or u'')] + objs}
    return _edit_body(s2, fn_top)


MUTATORS += [('same-name-kinds', m_same_name_kinds), ('replicate-objects', m_replicate_objects),
             ('fonts-differ', m_fonts_differ), ('fonts-styles-only', m_fonts_styles_only)]


def m_object_own_files(spec, rng):
    """what an office suite puts below an object folder besides content.xml/styles.xml: the object's OWN meta.xml and settings.xml
    (when it has none yet), a configuration folder with a file, a picture folder, files named like top-level members.  save() writes
    meta.xml for the top document only, so an object's meta.xml is one of the "other files listed in the manifest"."""
    man = list(spec['manifest']); mem = list(spec['members'])
    have = set(p for p, _ in man); names = set(n for n, _ in mem)
    folders = [p for p, mt in man if p and re.match(u'^(Object \\d+/)+$', p)]
    if not folders:
        return None
    M = (b'<?xml version="1.0" encoding="UTF-8"?>\n<office:document-meta xmlns:office="urn:oasis:names:tc:opendocument:xmlns:office:1.0" '
         b'xmlns:meta="urn:oasis:names:tc:opendocument:xmlns:meta:1.0" xmlns:dc="http://purl.org/dc/elements/1.1/" office:version="1.2">'
         b'<office:meta><meta:generator>Other/9.9</meta:generator><dc:title>object &amp; title</dc:title></office:meta></office:document-meta>')
    for f in folders:
        extra = [(f + u'meta.xml', u'text/xml', M),
                 (f + u'Configurations2/', u'application/vnd.sun.xml.ui.configuration', None),
                 (f + u'Configurations2/accelerator/current.xml', u'', b''),
                 (f + u'own.bin', u'application/octet-stream', bytes(bytearray(rng.randrange(256) for _ in range(rng.randint(1, 32))))),
                 (f + u'mimetype', u'text/plain', b'application/vnd.oasis.opendocument.chart')]
        for p, mt, b in extra:
            if p in have or p in names:
                continue
            man.insert(rng.randint(0, len(man)), (p, mt)); have.add(p)
            if b is not None:
                mem.insert(rng.randint(0, len(mem)), (p, b)); names.add(p)
    return {'mimetype': spec['mimetype'], 'manifest': man, 'members': mem}


MUTATORS += [('object-own-files', m_object_own_files)]


# ------------------------------------------------------------------------------------------- round 5 additions
def m_empty_media_types(spec, rng):
    """manifest entries with an EMPTY media type (several producers write them): pictures, opaque extras, files below
    object folders; a picture is added when the package has none"""
    man = list(spec['manifest']); mem = list(spec['members'])
    if not any((p or u'').startswith(u'Pictures/') and len(p) > 9 for p, _ in man):
        man.append((u'Pictures/harness picture.png', u'image/png')); mem.append((u'Pictures/harness picture.png', b'\x89PNG\r\n\x1a\nharness'))
        man.append((u'Pictures/harness.jpg', u'image/jpeg')); mem.append((u'Pictures/harness.jpg', b'\xff\xd8harness'))
    out = []
    for p, mt in man:
        base = (p or u'').split(u'/')[-1]
        fixed = p in (u'/',) or base in L.PARTS or (p or u'').endswith(u'/') or p in (u'mimetype', u'META-INF/manifest.xml')
        if not fixed and rng.random() < 0.7:
            out.append((p, u''))
        else:
            out.append((p, mt))
    return {'mimetype': spec['mimetype'], 'manifest': out, 'members': mem}


def _embedded_font(name, variant, depth):
    """style:font-face with children (1-3 levels) and text between them"""
    SVG = L.SVGNS
    fmt = ('E', SVG, u'font-face-format', [(SVG, u'string', u'truetype')], [])
    uri = ('E', SVG, u'font-face-uri', [(L.XLINKNS, u'href', u'Fonts/%s.ttf' % variant), (L.XLINKNS, u'type', u'simple')],
           [fmt] if depth >= 3 else [])
    src = ('E', SVG, u'font-face-src', [], [('T', u'\n   '), uri, ('T', u' '), ('E', SVG, u'font-face-name', [(SVG, u'name', u'local ' + variant)], []), ('T', u'\n  ')] if depth >= 2 else [])
    kids = [('T', u'\n  '), src, ('T', u'\n  '), ('E', SVG, u'definition-src', [(L.XLINKNS, u'href', u'Fonts/defs.svg'), (L.XLINKNS, u'type', u'simple')], []), ('T', u'\n ')]
    return ('E', L.STYLENS, u'font-face', [(L.STYLENS, u'name', name), (SVG, u'font-family', u"'%s'" % name)], kids)


def m_embedded_fonts(spec, rng):
    """embedded fonts: style:font-face elements WITH children (svg:font-face-src / svg:font-face-uri / svg:font-face-format,
    svg:definition-src) and text between them, declared in both parts (same), in one part only, and differing"""
    both = _embedded_font(u'Emb Both', u'both', rng.choice([1, 2, 3]))
    conly = _embedded_font(u'Emb Content', u'content', rng.choice([2, 3]))
    sonly = _embedded_font(u'Emb Styles', u'styles', rng.choice([2, 3]))
    differ = rng.random() < 0.3
    def edit(part):
        def f(t):
            mine = [both, conly if part == u'content.xml' else sonly]
            if differ:
                mine.append(_embedded_font(u'Emb Differ', part, 2))
            ff = L.kid(t, L.OFFICENS, 'font-face-decls')
            kids = list(t[4])
            sep = [('T', u'\n ')]
            add = []
            for x in mine:
                add += sep + [x]
            if ff is None:
                i = 0
                while i < len(kids) and not (kids[i][0] == 'E' and kids[i][2] in ('styles', 'automatic-styles', 'body', 'master-styles')):
                    i += 1
                kids.insert(i, ('E', L.OFFICENS, u'font-face-decls', [], add))
            else:
                kids = [('E', k[1], k[2], k[3], list(k[4]) + add) if k is ff else k for k in kids]
            return ('E', t[1], t[2], t[3], kids)
        return f
    s = _edit_body(spec, edit(u'content.xml'), part=u'content.xml', top_only=False)
    return _edit_body(s, edit(u'styles.xml'), part=u'styles.xml', top_only=False)


MUTATORS += [('empty-media-types', m_empty_media_types), ('embedded-fonts', m_embedded_fonts)]


# ------------------------------------------------------------------------------------------- round 6 additions
def object_folders(spec):
    """the listed object folders of a package spec, at every depth (a folder entry that has its own content.xml/styles.xml)"""
    listed = set(p for p, _ in spec['manifest'])
    return [p for p, _ in spec['manifest'] if p and p != u'/' and p.endswith(u'/')
            and ((p + u'content.xml') in listed or (p + u'styles.xml') in listed)]


def m_object_listed_members(spec, rng):
    """every kind of listed member BELOW an object folder (at every nesting depth): the object's own preview
    (Thumbnails/ folder entry + Thumbnails/thumbnail.png), further files in that folder, members whose names below the
    object folder coincide with names that mean something at the top of a package (mimetype, META-INF/manifest.xml,
    manifest.rdf, layout-cache, Thumbnails/..., Pictures/ folder entry, Basic/..., ObjectReplacements/...), folder entries
    with and without media type, an empty file, names with blanks / non-ASCII, a file several folders down.  All of them
    are "other files listed in the manifest": path, media type and bytes have to survive."""
    folders = object_folders(spec)
    if not folders:
        return None
    man = list(spec['manifest']); mem = list(spec['members'])
    have = set(p for p, _ in man); names = set(n for n, _ in mem)
    def blob(lo=1, hi=48):
        return bytes(bytearray(rng.randrange(256) for _ in range(rng.randint(lo, hi))))
    for f in folders:
        png = b'\x89PNG\r\n\x1a\n' + blob()
        extra = [(f + u'Thumbnails/', rng.choice([u'', u'application/x-folder']), None),
                 (f + u'Thumbnails/thumbnail.png', rng.choice([u'image/png', u'image/png', u'']), png),
                 (f + u'Thumbnails/thumbnail 2 é.png', u'image/png', blob()),
                 (f + u'Thumbnails/deeper/thumbnail.png', u'image/png', blob()),
                 (f + u'preview/Thumbnails/thumbnail.png', u'image/png', blob()),
                 (f + u'layout-cache', u'application/binary', blob()),
                 (f + u'manifest.rdf', u'application/rdf+xml', b'<?xml version="1.0"?>\n<rdf:RDF xmlns:rdf="http://www.w3.org/1999/02/22-rdf-syntax-ns#"/>'),
                 (f + u'META-INF/manifest.xml', u'text/xml', b'<?xml version="1.0"?>\n<manifest:manifest xmlns:manifest="urn:oasis:names:tc:opendocument:xmlns:manifest:1.0"/>'),
                 (f + u'Pictures/', u'', None),
                 (f + u'Basic/', u'', None),
                 (f + u'Basic/Standard/', u'', None),
                 (f + u'Basic/Standard/script-lb.xml', u'text/xml', b'<x/>'),
                 (f + u'ObjectReplacements/', u'', None),
                 (f + u'ObjectReplacements/Object 1', u'application/x-openoffice-gdimetafile;windows_formatname="GDIMetaFile"', blob()),
                 (f + u'empty', u'', b''),
                 (f + u'a/b/c/d.bin', u'application/octet-stream', blob())]
        # each object gets the preview and a random half of the rest
        chosen = extra[:2] + [x for x in extra[2:] if rng.random() < 0.5]
        rng.shuffle(chosen)
        for p, mt, b in chosen:
            if p in have or p in names:
                continue
            man.insert(rng.randint(0, len(man)), (p, mt)); have.add(p)
            if b is not None:
                mem.insert(rng.randint(0, len(mem)), (p, b)); names.add(p)
    return {'mimetype': spec['mimetype'], 'manifest': man, 'members': mem}


MUTATORS += [('object-listed-members', m_object_listed_members)]


# ------------------------------------------------------------------------------------------- round 7 additions
REQUESTED_DECLS = [(u'meta', L.METANS), (u'config', L.CONFIGNS), (u'dc', L.DCNS), (u'style', L.STYLENS), (u'svg', L.SVGNS),
                   (u'fo', L.FONS), (u'draw', L.DRAWNS), (u'table', L.TABLENS), (u'form', ODF % u'form')]
LONG_ROOT_KINDS = ('ext-decls-lines', 'ext-decls-blank', 'long-value', 'long-values-quotes', 'indent', 'mixed')
LONG_ROOT_K = (10, 11, 12, 13, 14, 15, 16)


def long_root_padding(kind, target, rng):
    """text for the root start tag, placed BEFORE the ODF namespace declarations: about `target` characters of
    well-formed attributes / declarations / white space.  ext-decls-*: extension namespace declarations (one per line, or
    blank-separated); long-value: one declaration whose namespace name is very long; long-values-quotes: foreign
    attributes with long values holding '>', the other kind of quote and the words ' xmlns:style='; indent: long runs of white
    space between a few declarations; mixed: all of these"""
    out = []; n = 0; size = 0
    def decl(sep):
        return u'%sxmlns:ext%d="urn:example:extension:%d:%s"' % (sep, n, n, u'abcdefghij'[:rng.randint(0, 10)])
    while size < target:
        k = kind if kind != 'mixed' else rng.choice(LONG_ROOT_KINDS[:-1])
        left = target - size
        if k == 'ext-decls-lines':
            s = decl(rng.choice([u'\n', u'\n  ', u'\n\t', u'\r\n    ']))
        elif k == 'ext-decls-blank':
            s = decl(u' ')
        elif k == 'long-value':
            s = u' xmlns:ext%d="urn:example:%s"' % (n, u'x' * max(1, min(left, 70000) - 30))
        elif k == 'long-values-quotes':
            body = (u"it's > here; xmlns:style= xmlns:meta = <no tag> " * (max(1, min(left, 3000)) // 48 + 1))
            if rng.random() < 0.5:
                s = u' ext%d-note="%s"' % (n, body.replace(u'<', u'&lt;'))
            else:
                s = u" ext%d-note='%s'" % (n, body.replace(u"'", u'"').replace(u'<', u'&lt;'))
        else:
            s = rng.choice([u' ', u'\n', u'\t']) * max(1, min(left, rng.choice([200, 1000, 5000])) - 40) + decl(u' ')
        out.append(s); size += len(s); n += 1
    return u''.join(out)


def m_long_root_tag(spec, rng, k=None, kind=None, delta=None):
    """the root start tag of every part is VERY long (about 2^k characters, k = 10..16: 1 KiB .. 64 KiB, a little less / more
    than 2^k): some hundred or thousand extension namespace declarations, one per line, long attribute values, long
    indentation - all BEFORE the ODF declarations, which follow at the end of the tag (the nine prefixes the loader asks
    for are all declared there, used or not).  Same infoset below the root; the root only gains foreign declarations /
    unqualified attributes."""
    k = k if k is not None else rng.choice(LONG_ROOT_K)
    kind = kind or rng.choice(LONG_ROOT_KINDS)
    def f(n, t, pm):
        old = prefixes_for(t, pm)
        d = delta if delta is not None else rng.choice([-400, -60, -1, 0, 1, 60, 400, 3000])
        pad = long_root_padding(kind, max(64, (1 << k) + d - len(t[2]) - 8), rng)
        extra = [(p, ns) for p, ns in REQUESTED_DECLS if old.get(ns, p) == p and p not in [old[x] for x in old if x != ns]]
        return L.serialise(t, old, extra_decls=extra, root_first=pad, seps=[rng.choice([u' ', u'\n', u'\n  '])])
    return map_parts(spec, f)


def m_long_root_tag_64k(spec, rng):
    return m_long_root_tag(spec, rng, k=16)


def m_long_root_tag_8k(spec, rng):
    return m_long_root_tag(spec, rng, k=rng.choice([12, 13]))


def font_name_variants(name):
    """[(kind, other spelling)] of a font name: spellings that differ from `name` by the case of its letters, by Unicode
    normalisation, by blanks around / inside it - and the name itself.  style:name is an exact key: each of them but
    'equal' is ANOTHER font."""
    import unicodedata
    def flip_one(s):
        for i, c in enumerate(s):
            if c.swapcase() != c and len(c.swapcase()) == 1 and i > 0:
                return s[:i] + c.swapcase() + s[i + 1:]
        return s
    vs = [('case-lower', name.lower()), ('case-upper', name.upper()), ('case-swap', name.swapcase()), ('case-title', name.title()),
          ('case-one-letter', flip_one(name)), ('case-fold', name.casefold()),
          ('nfd', unicodedata.normalize('NFD', name)), ('nfc', unicodedata.normalize('NFC', name)),
          ('nfkc', unicodedata.normalize('NFKC', name)), ('nfkd', unicodedata.normalize('NFKD', name)),
          ('blank-lead', u' ' + name), ('blank-trail', name + u' '), ('blank-both', u'  ' + name + u' '),
          ('blank-inner', name.replace(u' ', u'  ')), ('blank-nbsp', name.replace(u' ', u'\u00a0')), ('blank-none', name.replace(u' ', u''))]
    seen = set([name]); out = []
    for kd, v in vs:
        if v not in seen and v:
            seen.add(v); out.append((kd, v))
    return out + [('equal', name)]


FONT_BASES = [u'Harness Sans', u'DejaVu Sérif', u'dejavu serif', u'Ünïcode Près 3', u'İstanbul Kaşıkçı', u'Straße Groß',
              u'Ελληνικά Σίγμας', u'Ångström ﬁne', u'Café Monö', u'ǅemal Жук']


def _named_font(name, tag):
    return ('E', L.STYLENS, u'font-face', [(L.STYLENS, u'name', name), (L.SVGNS, u'font-family', u"'%s'" % name.strip()),
                                          (L.STYLENS, u'font-pitch', u'variable'), (L.STYLENS, u'font-family-generic', tag)], [])


def m_fonts_near_names(spec, rng):
    """content.xml and styles.xml declare fonts whose style:name are NEARLY the same: they differ only by the case of letters
    (ASCII and not), only by Unicode normalisation, only by blanks around / inside the name - or are equal (same declaration
    in both parts; sometimes a different one: the class of KF-C05-18).  Each part refers to its own spelling: an automatic
    text style used by a span (content.xml), a common style (styles.xml).  In the top document and every sub-document."""
    base = rng.choice(FONT_BASES)
    vs = font_name_variants(base)
    near = [v for v in vs if v[0] != 'equal']
    rng.shuffle(near)
    # one spelling of every class the name has (case / normalisation / blanks), and up to two more
    chosen = []
    for cls in ('case-', 'nf', 'blank-'):
        hit = [v for v in near if v[0].startswith(cls)]
        if hit:
            chosen.append(hit[0])
    chosen += [v for v in near if v not in chosen][:rng.randint(0, 2)]
    rng.shuffle(chosen)
    r = rng.random()
    equal = []
    if r < 0.5:
        equal = [('equal', base, u'swiss')]                  # the same declaration in both parts
    elif r < 0.65:
        equal = [('equal', base, u'roman')]                  # another font under the same name (KF-C05-18)
    swap = rng.random() < 0.5                                # which part has the base spelling
    first = [_named_font(base, u'swiss')]
    second = [_named_font(v, u'modern') for _, v in chosen] + [_named_font(v, g) for _, v, g in equal]
    if rng.random() < 0.3:                                   # both parts declare all near spellings, in different orders
        first = first + [_named_font(v, u'modern') for _, v in chosen]; rng.shuffle(first)
    rng.shuffle(second)
    mine = {u'content.xml': second if swap else first, u'styles.xml': first if swap else second}
    def edit(part):
        def f(n, t):
            fonts = mine[part]
            if n.count(u'/') >= 2:
                # (a difference inside a nested object is reported under the signature of the nested object: the clash of
                # KF-C05-18 is generated in the top document and in first-level objects only)
                fonts = [_named_font(L.attr(x, L.STYLENS, 'name'), u'swiss') if L.attr(x, L.STYLENS, 'font-family-generic') == u'roman' else x for x in fonts]
            names = [L.attr(x, L.STYLENS, 'name') for x in fonts]
            ff = L.kid(t, L.OFFICENS, 'font-face-decls')
            kids = list(t[4])
            if ff is None:
                i = 0
                while i < len(kids) and not (kids[i][0] == 'E' and kids[i][2] in ('styles', 'automatic-styles', 'body', 'master-styles')):
                    i += 1
                kids.insert(i, ('E', L.OFFICENS, u'font-face-decls', [], list(fonts)))
            else:
                at_front = rng.random() < 0.5
                kids = [('E', k[1], k[2], k[3], (list(fonts) + list(k[4])) if at_front else (list(k[4]) + list(fonts))) if k is ff else k for k in kids]
            users = [('E', L.STYLENS, u'style', [(L.STYLENS, u'name', u'HarnessFont%s%d' % (u'C' if part == u'content.xml' else u'S', i)), (L.STYLENS, u'family', u'text')],
                      [('E', L.STYLENS, u'text-properties', [(L.STYLENS, u'font-name', nm)], [])]) for i, nm in enumerate(names)]
            if part == u'styles.xml':
                st = [k for k in kids if k[0] == 'E' and (k[1], k[2]) == (L.OFFICENS, 'styles')]
                if st:
                    kids = [('E', k[1], k[2], k[3], list(k[4]) + users) if k is st[0] else k for k in kids]
            else:
                au = [k for k in kids if k[0] == 'E' and (k[1], k[2]) == (L.OFFICENS, 'automatic-styles')]
                body = [k for k in kids if k[0] == 'E' and (k[1], k[2]) == (L.OFFICENS, 'body')]
                if au and body:
                    done = {'d': False}
                    def add(e):
                        if not done['d'] and (e[1], e[2]) == (L.TEXTNS, 'p'):
                            done['d'] = True
                            return ('E', e[1], e[2], e[3], list(e[4]) + [('E', L.TEXTNS, u'span', [(L.TEXTNS, u'style-name', L.style_name(u))], [('T', u'in ' + nm)])
                                                                         for u, nm in zip(users, names)])
                        return e
                    nb = _map_tree(body[0], add)
                    if done['d']:
                        kids = [('E', k[1], k[2], k[3], list(k[4]) + users) if k is au[0] else nb if k is body[0] else k for k in kids]
            return ('E', t[1], t[2], t[3], kids)
        return f
    def named(sp, part):
        ed = edit(part)
        def f(n, t, pm):
            pf = prefixes_for(t, pm)
            t2 = ed(n, t)
            for ns in L.namespaces_of(t2):
                if ns not in pf and ns != L.XMLNS:
                    pf[ns] = STD_PREFIX.get(ns) if STD_PREFIX.get(ns) and STD_PREFIX[ns] not in pf.values() else u'frgn%d' % len(pf)
            return L.serialise(t2, pf)
        return map_parts(sp, f, only=[part])
    return named(named(spec, u'content.xml'), u'styles.xml')


MUTATORS += [('long-root-tag', m_long_root_tag), ('long-root-tag-8k', m_long_root_tag_8k), ('long-root-tag-64k', m_long_root_tag_64k),
             ('fonts-near-names', m_fonts_near_names)]


def long_root_witness(rng, k, delta, kind, which):
    """a minimal package around a HAND-WRITTEN content.xml (no serialiser) whose root start tag is 2^k + delta characters
    long up to and including its '>': padding of the given kind first, then the declarations of office / text and of
    all / some / none of the nine prefixes the loader asks for, at the very end of the tag"""
    asked = list(REQUESTED_DECLS)
    if which == 'some':
        rng.shuffle(asked); asked = asked[:rng.randint(1, 8)]
    elif which == 'none':
        asked = []
    tail = u''.join(u'%sxmlns:%s%s"%s"' % (rng.choice([u' ', u'\n', u'\n\t']), p, rng.choice([u'=', u'=', u' = ']), ns)
                    for p, ns in [(u'office', L.OFFICENS), (u'text', L.TEXTNS)] + asked) + u' office:version="1.2">'
    head = u'<office:document-content'
    want = (1 << k) + delta - len(head) - len(tail)
    pad = long_root_padding(kind, max(0, want - 80), rng) if want > 80 else u''
    fill = want - len(pad)
    if fill >= 14:
        pad += u' filler="%s"' % (u'f' * (fill - 10))
    elif fill > 0:
        pad += u' ' * fill
    uses = [p for p, _ in asked if p in (u'style', u'fo')]
    auto = u'<office:automatic-styles><style:style style:name="P1" style:family="paragraph"/></office:automatic-styles>' if u'style' in uses else u''
    text = (u'<?xml version="1.0" encoding="UTF-8"?>\n' + head + pad + tail + auto +
            u'<office:body><office:text><text:p%s>behind a long start tag (%s, %s)</text:p></office:text></office:body></office:document-content>'
            % (u' text:style-name="P1"' if auto else u'', kind, which))
    return {'mimetype': MT[u'text'], 'manifest': [(u'/', MT[u'text']), (u'content.xml', u'text/xml')],
            'members': [(u'content.xml', text.encode('utf-8'))]}

# -*- coding: utf-8 -*-
"""
Shared machinery of the /verif checks (see DESIGN.md section 2).

One `Check` object per run of `./check <Cxx>`:

  translate  - (per property) regenerate lean/OdfModel/Generated/*.lean from /repo
  prove      - `lake build OdfModel.Props.<Cxx>` + `#print axioms` audit + source gate
  correspond - run the compiled Lean driver and the real library on the same lines
  oracle     - evaluate the property itself on the real library's behaviour
  finish     - classify (ok / KNOWN-FINDING / VIOLATION [no-failing-input-found]),
               write evidence/<Cxx>.json, exit code

Nothing here decides a property: a proof obligation is discharged by Lean's kernel, and the
tie between model and code is the correspondence diff.  This file only orchestrates.
"""
import sys, os, re, json, time, hashlib, subprocess, random, fcntl, tempfile, shutil, traceback

VERIF = os.path.dirname(os.path.dirname(os.path.abspath(__file__)))
LEAN = os.path.join(VERIF, 'lean')
REPO = os.environ.get('ODFPY_REPO', '/repo')
GENERATED = os.path.join(LEAN, 'OdfModel', 'Generated')
ALLOWED_AXIOMS = {'propext', 'Classical.choice', 'Quot.sound'}
FORBIDDEN = re.compile(r'\b(sorry|admit|native_decide|bv_decide|implemented_by|unsafe)\b|^\s*axiom\s|maxHeartbeats\s+0\b', re.M)

TRUSTED_BASE = [
    "Lean 4.33.0 kernel (lake build); axioms allowed: propext, Classical.choice, Quot.sound (audited by #print axioms on every run)",
    "no sorry/admit/native_decide/bv_decide/implemented_by/unsafe/own axioms (source gate on every run)",
    "the correspondence harness (harness/*.py) and the Lean line-protocol drivers (lean/Drivers/*.lean): the model agrees with /repo only on the inputs that were run",
    "CPython, expat/xml.sax, zipfile, defusedxml are modelled or used as oracles, not verified",
]


def use_repo():
    """make `import odf` resolve to $ODFPY_REPO (default /repo)"""
    if REPO not in sys.path:
        sys.path.insert(0, REPO)
    os.environ.setdefault('PYTHONDONTWRITEBYTECODE', '1')
    sys.dont_write_bytecode = True


class InfraError(Exception):
    pass


def strip_lean_comments(src):
    # nested block comments /- ... -/ and line comments --
    out = []
    i, depth, n = 0, 0, len(src)
    while i < n:
        if src.startswith('/-', i):
            depth += 1; i += 2; continue
        if depth and src.startswith('-/', i):
            depth -= 1; i += 2; continue
        if depth:
            if src[i] == '\n': out.append('\n')
            i += 1; continue
        if src.startswith('--', i):
            while i < n and src[i] != '\n': i += 1
            continue
        out.append(src[i]); i += 1
    return ''.join(out)


class Driver(object):
    """a compiled Lean driver speaking the line protocol (one request line -> one response line)"""
    def __init__(self, exe):
        self.exe = exe
        self.p = subprocess.Popen([exe], stdin=subprocess.PIPE, stdout=subprocess.PIPE,
                                  universal_newlines=True, bufsize=1 << 20)
        self.requests = 0

    def batch(self, lines):
        """send many lines, read as many answers (threaded writer avoids pipe deadlock)"""
        import threading
        lines = list(lines)
        def w():
            for l in lines:
                self.p.stdin.write(l + '\n')
            self.p.stdin.flush()
        t = threading.Thread(target=w); t.start()
        out = []
        for _ in lines:
            r = self.p.stdout.readline()
            if not r:
                raise InfraError('driver %s died after %d answers' % (self.exe, len(out)))
            out.append(r.rstrip('\n'))
        t.join()
        self.requests += len(lines)
        return out

    def ask(self, line):
        return self.batch([line])[0]

    def close(self):
        try:
            self.p.stdin.close(); self.p.wait(timeout=10)
        except Exception:
            self.p.kill()


def enc_str(s):
    """Python str -> wire form (hex code points joined by '.', '-' for empty)"""
    if s == '':
        return '-'
    return '.'.join('%x' % ord(c) for c in s)


def dec_str(w):
    if w == '-':
        return ''
    return ''.join(chr(int(x, 16)) for x in w.split('.'))


class StopExploring(BaseException):
    """raised by Check.case() to cut a run short (BaseException: the `except Exception` blocks of the harnesses let it through)"""


class Check(object):
    def __init__(self, prop, tier='quick', seed=None):
        self.prop = prop
        self.tier = tier
        if seed is None:
            seed = int(os.environ.get('VERIF_SEED', '0') or 0)
        self.seed = seed
        self.rng = random.Random('%s-%d' % (prop, seed))
        self.t0 = time.time()
        self.obligations = []      # dicts {name, kind, ok, detail}
        self.failures = []         # confirmed failing inputs on the implementation
        self.known_hits = {}       # id -> description (known findings reproduced)
        self.broken = []           # broken proof obligations / correspondence (not by itself a violation)
        self.corr_cases = 0
        self.corr_diffs = []
        self.evaluations = 0
        self.nontrivial = set()
        self.samples = []
        self.dist = {}
        self.notes = []
        self.assumptions = []
        self.checker_cmds = []
        self.deep_search = None    # callable() run when something broke and no failing input is known yet
        self.drivers = {}
        self.extra_cov = {}
        self.known = load_known(prop)
        # time guards.  A change to the library can make every explored case slow (seeded change C03-r6m1: a list that grows with
        # every save of the process made one quick run take more than half an hour).  (1) once a failing input is on record the
        # exploration goes on for a grace period only; (2) a run that exceeds its budget - an order of magnitude above what the
        # unchanged tree needs - stops and reports that it did not finish (a broken obligation, never a silent pass).
        self.first_fail_t = None
        self.grace_s = float(os.environ.get('VERIF_GRACE_S', '45' if tier == 'quick' else '180'))
        self.budget_s = float(os.environ.get('VERIF_BUDGET_S', '900' if tier == 'quick' else '5400'))
        self.stopped = None

    def time_guard(self):
        now = time.time()
        if self.failures and self.first_fail_t is not None and now - self.first_fail_t > self.grace_s:
            self.stopped = 'failing inputs on record; exploration cut short %.0f s after the first one' % (now - self.first_fail_t)
            raise StopExploring(self.stopped)
        if now - self.t0 > self.budget_s:
            self.stopped = 'time budget of %.0f s exceeded after %d cases' % (self.budget_s, self.evaluations)
            self.broken.append({'what': 'time-budget', 'detail': self.stopped + ' - the exploration did not finish (the unchanged tree needs a fraction of this)'})
            raise StopExploring(self.stopped)

    # ---------------------------------------------------------------- bookkeeping
    def count(self, key, n=1):
        self.dist[key] = self.dist.get(key, 0) + n

    def case(self, key, nontrivial=True, sample=None):
        """register one explored case; `key` identifies it for distinctness"""
        self.evaluations += 1
        if self.stopped is None and (self.evaluations & 15) == 0:
            self.time_guard()
        if nontrivial:
            if len(self.nontrivial) < 2000000:
                self.nontrivial.add(key if isinstance(key, (str, int, tuple)) else repr(key))
        if sample is not None and len(self.samples) < 8:
            self.samples.append(sample)

    # ---------------------------------------------------------------- lean side
    def lake(self, args, timeout=3000):
        lock = open(os.path.join(LEAN, '.lock'), 'w')
        fcntl.flock(lock, fcntl.LOCK_EX)
        try:
            try:
                r = subprocess.run(['lake'] + args, cwd=LEAN, stdout=subprocess.PIPE, stderr=subprocess.STDOUT,
                                   universal_newlines=True, timeout=timeout)
            except FileNotFoundError:
                raise InfraError('lake not found on PATH')
            except subprocess.TimeoutExpired:
                raise InfraError('lake %s timed out' % ' '.join(args))
            return r.returncode, r.stdout
        finally:
            fcntl.flock(lock, fcntl.LOCK_UN); lock.close()

    def write_generated(self, name, content):
        """write lean/OdfModel/Generated/<name>.lean only if the content changed"""
        os.makedirs(GENERATED, exist_ok=True)
        p = os.path.join(GENERATED, name + '.lean')
        old = None
        if os.path.exists(p):
            with open(p, encoding='utf-8') as f:
                old = f.read()
        if old != content:
            with open(p, 'w', encoding='utf-8') as f:
                f.write(content)
        return p

    def prove(self, modules=None, drivers=(), extra_theorem_files=()):
        """build the property's theorem module(s) and the drivers; audit axioms; gate the sources.
        Every `theorem` of OdfModel/Props/<Cxx>.lean is one obligation."""
        modules = modules or ['OdfModel.Props.%s' % self.prop]
        targets = list(modules) + list(drivers)
        cmd = 'cd lean && lake build ' + ' '.join(targets)
        self.checker_cmds.append(cmd)
        rc, out = self.lake(['build'] + targets)
        built = (rc == 0)
        if not built and ('error: no such file' in out and 'lakefile' in out):
            raise InfraError(out[-2000:])
        # which modules failed?
        failed_modules = set(re.findall(r'^- (\S+)\s*$', out, re.M))
        thm_names = []
        for m in modules:
            path = os.path.join(LEAN, m.replace('.', '/') + '.lean')
            with open(path, encoding='utf-8') as f:
                src = strip_lean_comments(f.read())
            ns = re.search(r'^namespace\s+(\S+)', src, re.M)
            ns = ns.group(1) if ns else ''
            for t in re.findall(r'^\s*(?:protected\s+|private\s+)?theorem\s+([^\s:({\[]+)', src, re.M):
                thm_names.append((m, (ns + '.' + t) if ns else t))
        self.build_log_tail = out[-4000:]
        if not built:
            # everything in a failed module (or depending on it) is undischarged
            errs = re.findall(r'^error: (.*)$', out, re.M)
            for m, t in thm_names:
                self.obligations.append({'name': t, 'kind': 'theorem', 'ok': False,
                                         'detail': 'lake build failed: ' + '; '.join(errs[:3])[:400]})
            self.broken.append({'what': 'proof', 'detail': 'lake build %s failed' % ' '.join(targets),
                                'errors': errs[:10], 'failed_targets': sorted(failed_modules)})
            return False
        # axioms audit
        audit_dir = os.path.join(LEAN, '.lake', 'audit')
        os.makedirs(audit_dir, exist_ok=True)
        audit_file = os.path.join(audit_dir, 'Audit_%s.lean' % self.prop)
        with open(audit_file, 'w') as f:
            for m in modules:
                f.write('import %s\n' % m)
            for m, t in thm_names:
                f.write('#print axioms %s\n' % t)
        rc2, out2 = self.lake(['env', 'lean', audit_file])
        self.checker_cmds.append('lake env lean .lake/audit/Audit_%s.lean  (#print axioms for every theorem)' % self.prop)
        ax = {}
        for mm in re.finditer(r"'([^']+)' depends on axioms: \[([^\]]*)\]", out2.replace('\n', ' ')):
            ax[mm.group(1)] = set(a.strip() for a in mm.group(2).split(',') if a.strip())
        for mm in re.finditer(r"'([^']+)' does not depend on any axioms", out2):
            ax[mm.group(1)] = set()
        ok_all = True
        for m, t in thm_names:
            if t not in ax:
                self.obligations.append({'name': t, 'kind': 'theorem', 'ok': False, 'detail': 'no #print axioms output'})
                ok_all = False
            else:
                bad = ax[t] - ALLOWED_AXIOMS
                self.obligations.append({'name': t, 'kind': 'theorem', 'ok': not bad,
                                         'detail': 'axioms: ' + (', '.join(sorted(ax[t])) or 'none')})
                if bad:
                    ok_all = False
        if not thm_names:
            ok_all = False
            self.obligations.append({'name': 'no theorems found', 'kind': 'theorem', 'ok': False, 'detail': ''})
        # source gate: every file in the import closure of the modules proved here and of the drivers used
        hits = []
        for path in sorted(self.import_closure(list(modules) + ['Drivers.' + self.driver_root(d) for d in drivers])):
            with open(path, encoding='utf-8') as fh:
                src = strip_lean_comments(fh.read())
            for mm in FORBIDDEN.finditer(src):
                hits.append('%s: %s' % (os.path.relpath(path, LEAN), mm.group(0).strip()))
        self.extra_cov['gated_files'] = len(self.import_closure(list(modules)))
        self.obligations.append({'name': 'source gate (no sorry/admit/axiom/native_decide/bv_decide/implemented_by/unsafe/maxHeartbeats 0)',
                                 'kind': 'gate', 'ok': not hits, 'detail': '; '.join(hits[:5])})
        if hits:
            ok_all = False
        if self.tier == 'thorough':
            # independent re-check of the compiled .olean files (needs the library root to be built)
            self.lake(['build', 'OdfModel'])
            rc3, out3 = self.lake(['env', 'leanchecker'] + list(modules), timeout=3000)
            self.checker_cmds.append('lake env leanchecker ' + ' '.join(modules))
            self.obligations.append({'name': 'leanchecker re-check of ' + ', '.join(modules), 'kind': 'leanchecker', 'ok': rc3 == 0,
                                     'detail': out3.strip()[-300:]})
            if rc3 != 0:
                ok_all = False
        if not ok_all:
            self.broken.append({'what': 'proof-audit', 'detail': [o for o in self.obligations if not o['ok']][:5]})
        return ok_all

    def driver_root(self, exe):
        """module root of a lean_exe of lakefile.toml (`root = "Drivers.Xml"` -> `Xml`)"""
        try:
            with open(os.path.join(LEAN, 'lakefile.toml')) as f:
                txt = f.read()
            m = re.search(r'name\s*=\s*"%s"\s*\n\s*root\s*=\s*"Drivers\.([A-Za-z0-9_]+)"' % re.escape(exe), txt)
            return m.group(1) if m else exe
        except Exception:
            return exe

    def import_closure(self, modules):
        """paths of the project's own .lean files reachable through `import` from the given modules"""
        seen = {}
        todo = list(modules)
        while todo:
            m = todo.pop()
            if m in seen or not (m.startswith('OdfModel') or m.startswith('Drivers')):
                continue
            path = os.path.join(LEAN, m.replace('.', '/') + '.lean')
            if not os.path.exists(path):
                continue
            seen[m] = path
            with open(path, encoding='utf-8') as f:
                for line in f:
                    mm = re.match(r'\s*(?:public\s+)?import\s+([A-Za-z0-9_.]+)', line)
                    if mm:
                        todo.append(mm.group(1))
        return set(seen.values())

    def obligation(self, name, ok, detail='', kind='generated-table'):
        self.obligations.append({'name': name, 'kind': kind, 'ok': bool(ok), 'detail': detail})
        if not ok:
            self.broken.append({'what': kind, 'detail': name + ': ' + detail})

    def driver(self, name):
        if name not in self.drivers:
            exe = os.path.join(LEAN, '.lake', 'build', 'bin', name)
            if not os.path.exists(exe):
                rc, out = self.lake(['build', name])
                if rc != 0 or not os.path.exists(exe):
                    raise InfraError('cannot build driver %s: %s' % (name, out[-1500:]))
            self.drivers[name] = Driver(exe)
        return self.drivers[name]

    # ---------------------------------------------------------------- classification
    def corr(self, n=1):
        self.corr_cases += n

    def corr_diff(self, case, impl, model, what=''):
        """model and implementation disagree on `case` (not by itself a violation)"""
        if len(self.corr_diffs) < 20:
            self.corr_diffs.append({'case': case, 'impl': impl, 'model': model, 'what': what})
        else:
            self.count('corr_diffs_dropped')

    def fail(self, sig, case, detail, replay=None):
        """the real library breaks the property on `case`.  `sig` is the finding signature."""
        for k in self.known:
            if k['sig'] == sig:
                if k['id'] not in self.known_hits:
                    self.known_hits[k['id']] = {'known': k, 'case': case, 'detail': detail}
                return 'known'
        if len(self.failures) < 50:
            self.failures.append({'sig': sig, 'case': case, 'detail': detail, 'replay': replay or case})
        if self.first_fail_t is None:
            self.first_fail_t = time.time()
        return 'violation'

    def write_replay(self, obj):
        d = os.path.join(VERIF, 'replays')
        os.makedirs(d, exist_ok=True)
        blob = json.dumps(obj, sort_keys=True, indent=1, default=repr)
        h = hashlib.sha1(blob.encode('utf-8')).hexdigest()[:10]
        p = os.path.join(d, '%s-%s.json' % (self.prop, h))
        with open(p, 'w') as f:
            f.write(blob + '\n')
        return os.path.relpath(p, VERIF)

    def finish(self):
        for d in self.drivers.values():
            d.close()
        if (self.broken or self.corr_diffs) and not self.failures and self.deep_search and self.stopped is None:
            try:
                self.deep_search()
            except InfraError:
                raise
            except Exception as e:
                self.notes.append('deep search crashed: %r' % (e,))
        lines = []
        for kid, h in sorted(self.known_hits.items()):
            lines.append('KNOWN-FINDING: property=%s %s (%s) witness=%s' % (
                self.prop, h['known']['text'], kid, json.dumps(h['case'], default=repr)[:200]))
        rc = 0
        violations = 0
        seen_sigs = set()
        for f in self.failures:
            if f['sig'] in seen_sigs:
                continue
            seen_sigs.add(f['sig'])
            path = self.write_replay({'property': self.prop, 'kind': 'failing-input', 'signature': f['sig'],
                                      'input': f['replay'], 'detail': f['detail'],
                                      'replay_cmd': './check %s --replay <this file>' % self.prop,
                                      'seed': self.seed, 'tier': self.tier})
            lines.append('VIOLATION property=%s replay=%s' % (self.prop, path))
            violations += 1; rc = 1
        if not self.failures and (self.broken or self.corr_diffs):
            path = self.write_replay({'property': self.prop, 'kind': 'no-failing-input-found',
                                      'broken_obligations': self.broken,
                                      'correspondence_differences': self.corr_diffs,
                                      'undischarged': [o for o in self.obligations if not o['ok']],
                                      'build_log_tail': getattr(self, 'build_log_tail', '')[-1500:],
                                      'seed': self.seed, 'tier': self.tier,
                                      'note': 'a proof obligation or the model/code correspondence no longer checks; '
                                              'the search found no input on which the implementation breaks the property'})
            lines.append('VIOLATION property=%s replay=%s no-failing-input-found' % (self.prop, path))
            violations += 1; rc = 1
        self.write_evidence(violations)
        for l in lines:
            print(l)
        n_ob = len(self.obligations); n_ok = sum(1 for o in self.obligations if o['ok'])
        print('%s %s seed=%d: obligations %d/%d, correspondence %d cases (%d diffs), oracle %d cases, %d known, %d violations, %.1fs'
              % (self.prop, self.tier, self.seed, n_ok, n_ob, self.corr_cases, len(self.corr_diffs),
                 self.evaluations, len(self.known_hits), violations, time.time() - self.t0))
        return rc

    def write_evidence(self, violations):
        n_ob = len(self.obligations); n_ok = sum(1 for o in self.obligations if o['ok'])
        cov = {
            'obligations': n_ob,
            'discharged': n_ok,
            'checker_cmd': ' && '.join(self.checker_cmds) or 'cd lean && lake build',
            'trusted_base': TRUSTED_BASE + self.assumptions,
            'obligation_list': self.obligations,
            'traces_validated_against_impl': self.corr_cases,
            'correspondence_differences': len(self.corr_diffs),
            'evaluations': self.evaluations,
            'distinct_nontrivial': len(self.nontrivial),
            'rule': getattr(self, 'rule', ''),
            'samples': self.samples or [o['name'] for o in self.obligations[:5]],
            'input_distribution': self.dist,
            'known_findings_reproduced': sorted(self.known_hits),
            'notes': self.notes,
        }
        cov.update(self.extra_cov)
        ev = {
            'property_id': self.prop,
            'tier': self.tier,
            'seed': self.seed,
            'level': 'proof',
            'coverage': cov,
            'assumptions': TRUSTED_BASE + self.assumptions,
            'wall_s': round(time.time() - self.t0, 2),
            'violations': violations,
        }
        d = os.path.join(VERIF, 'evidence')
        os.makedirs(d, exist_ok=True)
        with open(os.path.join(d, self.prop + '.json'), 'w') as f:
            json.dump(ev, f, indent=1, sort_keys=True, default=repr)
            f.write('\n')


def load_known(prop):
    """KNOWN_FINDINGS.txt: `known: property=Cxx sig=<sig> id=<id> :: text` / `fixed: property=Cxx <commit> <text>`"""
    out = []
    import glob
    files = [os.path.join(VERIF, 'KNOWN_FINDINGS.txt')] + sorted(glob.glob(os.path.join(VERIF, 'known-findings', '*.txt')))
    lines = []
    for p in files:
        if os.path.exists(p):
            with open(p, encoding='utf-8') as f:
                lines.extend(f.readlines())
    if True:
        for line in lines:
            line = line.strip()
            if not line.startswith('known:'):
                continue
            head, _, text = line[len('known:'):].partition('::')
            kv = dict(x.split('=', 1) for x in head.split() if '=' in x)
            if kv.get('property') == prop:
                out.append({'sig': kv.get('sig'), 'id': kv.get('id'), 'text': text.strip(), 'kv': kv})
    return out


def main_wrapper(run, prop):
    import argparse
    ap = argparse.ArgumentParser()
    ap.add_argument('--tier', default=os.environ.get('VERIF_TIER', 'quick'))
    ap.add_argument('--replay', default=None)
    a = ap.parse_args(sys.argv[2:])
    use_repo()
    chk = Check(prop, a.tier)
    try:
        if a.replay:
            with open(a.replay) as f:
                rp = json.load(f)
            rc = run(chk, replay=rp)
        else:
            rc = run(chk)
        sys.exit(rc)
    except InfraError as e:
        print('INFRA-ERROR %s: %s' % (prop, e))
        sys.exit(2)
    except StopExploring as e:
        chk.notes.append('exploration stopped early: %s' % (e,))
        try:
            sys.exit(chk.finish())
        except InfraError as e2:
            print('INFRA-ERROR %s: %s' % (prop, e2))
            sys.exit(2)
    except (KeyboardInterrupt, SystemExit):
        raise
    except Exception as e:
        # the library under test behaved in a way the harness did not expect (or the harness is broken): what was found so
        # far is reported; if nothing was, the run counts as "correspondence no longer checks" (never as a silent pass)
        tb = traceback.format_exc()
        chk.broken.append({'what': 'harness-exception', 'detail': tb[-1500:]})
        chk.notes.append('run aborted by %r' % (e,))
        sys.stderr.write(tb)
        try:
            sys.exit(chk.finish())
        except InfraError as e2:
            print('INFRA-ERROR %s: %s' % (prop, e2))
            sys.exit(2)

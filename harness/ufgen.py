# -*- coding: utf-8 -*-
"""
Documents with user-field declarations, written by hand (no odfpy involved), and an independent reader for them
(expat + zipfile).  Used by the C19 check and by its translator.
"""
import io, zipfile, struct, zlib
import xml.parsers.expat
from xml.sax.saxutils import escape, quoteattr

OFFICENS = u'urn:oasis:names:tc:opendocument:xmlns:office:1.0'
TEXTNS = u'urn:oasis:names:tc:opendocument:xmlns:text:1.0'
NS = [
    (u'office', OFFICENS), (u'text', TEXTNS),
    (u'style', u'urn:oasis:names:tc:opendocument:xmlns:style:1.0'),
    (u'meta', u'urn:oasis:names:tc:opendocument:xmlns:meta:1.0'),
    (u'dc', u'http://purl.org/dc/elements/1.1/'),
    (u'config', u'urn:oasis:names:tc:opendocument:xmlns:config:1.0'),
    (u'table', u'urn:oasis:names:tc:opendocument:xmlns:table:1.0'),
    (u'draw', u'urn:oasis:names:tc:opendocument:xmlns:drawing:1.0'),
    (u'svg', u'urn:oasis:names:tc:opendocument:xmlns:svg-compatible:1.0'),
    (u'fo', u'urn:oasis:names:tc:opendocument:xmlns:xsl-fo-compatible:1.0'),
    (u'form', u'urn:oasis:names:tc:opendocument:xmlns:form:1.0'),
    (u'xlink', u'http://www.w3.org/1999/xlink'),
    (u'manifest', u'urn:oasis:names:tc:opendocument:xmlns:manifest:1.0'),
]
PREFIX = dict(NS)
NSDECL = u''.join(u' xmlns:%s="%s"' % (p, u) for p, u in NS if p != u'manifest') + u' office:version="1.2"'
DECL = u"<?xml version='1.0' encoding='UTF-8'?>\n"

# the attribute of a declaration that carries its value, by value type: ODF 1.2 part 1, 19.385 / 19.387-19.389
# (written down from the specification; NOT read from odf/userfield.py)
SPEC_VALUE_ATTR = {
    u'float': u'value', u'percentage': u'value', u'currency': u'value',
    u'date': u'date-value', u'time': u'time-value', u'boolean': u'boolean-value', u'string': u'string-value',
}
SEVEN = [u'string', u'float', u'percentage', u'currency', u'date', u'time', u'boolean']


def spec_attr(value_type):
    """(ns, local) of the value attribute of a declaration of this type; unknown / missing type: office:value"""
    return (OFFICENS, SPEC_VALUE_ATTR.get(value_type, u'value'))


def qattr(prefixed, value):
    return u' %s=%s' % (prefixed, quoteattr(value, {u'\n': u'&#10;', u'\r': u'&#13;', u'\t': u'&#9;'}))


def decl_xml(attrs):
    """attrs: list of (prefixed attribute name, value)"""
    return u'<text:user-field-decl' + u''.join(qattr(k, v) for k, v in attrs) + u'/>'


def png(seed):
    """a tiny valid PNG whose bytes depend on seed"""
    def chunk(t, d):
        c = struct.pack('>I', len(d)) + t + d
        return c + struct.pack('>I', zlib.crc32(t + d) & 0xffffffff)
    raw = b'\x00' + bytes([seed % 256, (seed // 256) % 256, 7])
    return (b'\x89PNG\r\n\x1a\n' + chunk(b'IHDR', struct.pack('>IIBBBBB', 1, 1, 8, 2, 0, 0, 0)) +
            chunk(b'IDAT', zlib.compress(raw)) + chunk(b'IEND', b''))


EXTRA_NAMES = [u'extra/data.bin', u'ObjectReplacements/Object 1', u'Configurations2/accelerator/current.xml', u'Objects/blob',
               u'Basic/script-lc.xml', u'layout-cache']


def make_package(decls, paras=(), header_decls=(), picture=None, extra=None, thumbnail=False, extra_name=0):
    """decls / header_decls: lists of attribute lists; paras: list of (text, field name to reference or None);
    picture: int seed or None; extra: bytes or None.  Returns (bytes of the package, dict name -> bytes)"""
    body = [u'<office:text>']
    if decls is not None:
        body.append(u'<text:user-field-decls>' + u''.join(decl_xml(a) for a in decls) + u'</text:user-field-decls>')
    for i, (t, ref) in enumerate(paras):
        p = u'<text:p text:style-name="%s">%s' % (u'P1' if i % 2 else u'Standard', escape(t))
        if ref is not None:
            p += u'<text:user-field-get' + qattr(u'text:name', ref) + u'>x</text:user-field-get>'
        if picture is not None and i == 0:
            p += (u'<draw:frame draw:name="pic" text:anchor-type="as-char" svg:width="1cm" svg:height="1cm">'
                  u'<draw:image xlink:href="Pictures/p%d.png" xlink:type="simple"/></draw:frame>' % picture)
        body.append(p + u'</text:p>')
    body.append(u'</office:text>')
    content = (DECL + u'<office:document-content' + NSDECL + u'><office:automatic-styles>'
               u'<style:style style:name="P1" style:family="paragraph"><style:text-properties fo:font-weight="bold"/></style:style>'
               u'</office:automatic-styles><office:body>' + u''.join(body) + u'</office:body></office:document-content>')
    header = u''
    if header_decls:
        header = (u'<style:header><text:user-field-decls>' + u''.join(decl_xml(a) for a in header_decls) +
                  u'</text:user-field-decls><text:p>head</text:p></style:header>')
    styles = (DECL + u'<office:document-styles' + NSDECL + u'><office:styles>'
              u'<style:style style:name="Standard" style:family="paragraph"><style:paragraph-properties fo:margin-top="1mm"/></style:style>'
              u'<style:style style:name="Unused" style:family="text"><style:text-properties fo:color="#112233"/></style:style>'
              u'</office:styles><office:automatic-styles><style:page-layout style:name="pl">'
              u'<style:page-layout-properties fo:page-width="21cm"/></style:page-layout></office:automatic-styles>'
              u'<office:master-styles><style:master-page style:name="Standard" style:page-layout-name="pl">' + header +
              u'</style:master-page></office:master-styles></office:document-styles>')
    meta = (DECL + u'<office:document-meta' + NSDECL + u'><office:meta><dc:title>user fields &amp; more</dc:title>'
            u'<meta:generator>handwritten/1.0</meta:generator><meta:user-defined meta:name="k">v</meta:user-defined>'
            u'</office:meta></office:document-meta>')
    settings = (DECL + u'<office:document-settings' + NSDECL + u'><office:settings><config:config-item-set config:name="s">'
                u'<config:config-item config:name="x" config:type="string">y</config:config-item></config:config-item-set>'
                u'</office:settings></office:document-settings>')
    members = [(u'mimetype', b'application/vnd.oasis.opendocument.text'), (u'content.xml', content), (u'styles.xml', styles),
               (u'meta.xml', meta), (u'settings.xml', settings)]
    entries = [(u'/', u'application/vnd.oasis.opendocument.text'), (u'content.xml', u'text/xml'), (u'styles.xml', u'text/xml'),
               (u'meta.xml', u'text/xml'), (u'settings.xml', u'text/xml')]
    if picture is not None:
        members.append((u'Pictures/p%d.png' % picture, png(picture)))
        entries.append((u'Pictures/p%d.png' % picture, u'image/png'))
    if thumbnail:
        members.append((u'Thumbnails/thumbnail.png', png(99)))
        entries.append((u'Thumbnails/thumbnail.png', u'image/png'))
    if extra is not None:
        members.append((EXTRA_NAMES[extra_name % len(EXTRA_NAMES)], extra))
        entries.append((EXTRA_NAMES[extra_name % len(EXTRA_NAMES)], u'application/octet-stream'))
    man = (DECL + u'<manifest:manifest xmlns:manifest="%s" manifest:version="1.2">' % PREFIX[u'manifest'] +
           u''.join(u'<manifest:file-entry manifest:full-path="%s" manifest:media-type="%s"/>' % e for e in entries) +
           u'</manifest:manifest>')
    members.append((u'META-INF/manifest.xml', man))
    buf = io.BytesIO()
    z = zipfile.ZipFile(buf, 'w', zipfile.ZIP_DEFLATED)
    out = {}
    for name, data in members:
        if not isinstance(data, bytes):
            data = data.encode('utf-8')
        out[name] = data
        z.writestr(zipfile.ZipInfo(name, (2024, 2, 29, 12, 0, 0)), data,
                   zipfile.ZIP_STORED if name == u'mimetype' else zipfile.ZIP_DEFLATED)
    z.close()
    return buf.getvalue(), out


# ---------------------------------------------------------------------------------------------------------------
# independent reader: expat -> tree  [ (ns, local), {(ns, local): value}, [children | text] ]
# ---------------------------------------------------------------------------------------------------------------
def split(name):
    if u' ' in name:
        ns, local = name.rsplit(u' ', 1)
        return (ns, local)
    return (u'', name)


def parse_tree(data):
    p = xml.parsers.expat.ParserCreate(namespace_separator=u' ')
    p.buffer_text = True
    root = [None, {}, []]
    stack = [root]

    def start(name, attrs):
        n = [split(name), dict((split(k), v) for k, v in attrs.items()), []]
        stack[-1][2].append(n)
        stack.append(n)

    def end(name):
        stack.pop()

    def chars(s):
        kids = stack[-1][2]
        if kids and isinstance(kids[-1], str):
            kids[-1] += s
        else:
            kids.append(s)
    p.StartElementHandler = start
    p.EndElementHandler = end
    p.CharacterDataHandler = chars
    p.Parse(data, True)
    return root[2][0]


def walk(tree):
    yield tree
    for k in tree[2]:
        if not isinstance(k, str):
            for x in walk(k):
                yield x


def canon(tree):
    """hashable canonical form (attribute order irrelevant)"""
    return (tree[0], tuple(sorted(tree[1].items())), tuple(k if isinstance(k, str) else canon(k) for k in tree[2]))


def unzip(data):
    z = zipfile.ZipFile(io.BytesIO(data))
    return [(i.filename, z.read(i.filename)) for i in z.infolist()]


DECL_Q = (TEXTNS, u'user-field-decl')


def read_decls(members):
    """attribute dicts of every text:user-field-decl, content.xml first, then styles.xml (document order inside)"""
    d = dict(members)
    out = []
    for name in (u'content.xml', u'styles.xml'):
        if name in d:
            for n in walk(parse_tree(d[name])):
                if n[0] == DECL_Q:
                    out.append(n[1])
    return out

# -*- coding: utf-8 -*-
"""The checks of the XML layer: C01 (well-formed), C02 (print/parse identity), C14 (namespaces / history independence).
They share the model (lean/OdfModel/Xml, Ns, Spec/XmlParse), the translators (translate_esc, translate_ns), the
correspondence and the generators; each has its own theorem file and its own oracle."""
import io, itertools, json, os, subprocess, sys, zipfile
import xml.parsers.expat
import common
from common import enc_str, dec_str
import xmlcorr as X
import translate_esc, translate_ns, translate_escsrc

PROLOGUE = u"<?xml version='1.0' encoding='UTF-8'?>\n"
LEMMA_MODULES = ['OdfModel.Xml.EscapeLemmas', 'OdfModel.Xml.AttrLemmas', 'OdfModel.Xml.TagLemmas',
                 'OdfModel.Xml.ContentLemmas', 'OdfModel.Xml.RoundTrip', 'OdfModel.Xml.NsLemmas',
                 'OdfModel.Xml.NsRoundTrip', 'OdfModel.Xml.Compose', 'OdfModel.Xml.Encodable', 'OdfModel.NsLemmas']


def setup(chk, prop_modules):
    try:
        translate_esc.translate(chk)
    except (RuntimeError, AssertionError) as e:
        # the filter is no longer a per-code-point map (the translator can only tabulate such a map).  That breaks the
        # correspondence, recorded as a failed obligation; the run goes on with the table generated last so that the ORACLE can
        # still look for a concrete string on which the real code breaks the property (surrogate_pairs_check, strings_check)
        chk.obligation('translate_esc: _handle_unrepresentable is a per-code-point map (length preserving, context free)', False,
                       repr(e), kind='translator-crosscheck')
    translate_ns.translate(chk)
    translate_escsrc.translate(chk)
    ok = chk.prove(modules=prop_modules + LEMMA_MODULES, drivers=['drv_xml'])
    return chk.driver('drv_xml')


# ------------------------------------------------------------------ correspondence pieces
def py_classes(f, strip):
    out = []; cur = None; lo = 0
    for c in range(0x110000):
        o = strip(f(chr(c)))
        k = '=' if o == chr(c) else ('F' if o == u'�' else enc_str(o))
        if k != cur:
            if cur is not None:
                out.append('%x-%x:%s' % (lo, c - 1, cur))
            lo = c; cur = k
    out.append('%x-%x:%s' % (lo, 0x10ffff, cur))
    return ' '.join(out)


def encoders(chk, drv):
    """the three encoders on EVERY code point (complete finite domain), model vs code"""
    import odf.element as E
    def t(s):
        f = io.StringIO(); E.Text(s).toXml(0, f); return f.getvalue()
    def cd(s):
        f = io.StringIO(); E.CDATASection(s).toXml(0, f); return f.getvalue()
    for name, f, strip in (('text', t, lambda o: o), ('attr', E._quoteattr, lambda o: o[1:-1]),
                           ('attrquote', E._quoteattr, lambda o: o[:1]), ('cdata', cd, lambda o: o[9:-3])):
        a = drv.ask('classes ' + name)
        b = 'ok ' + py_classes(f, strip)
        chk.corr(0x110000)
        chk.count('codepoints_' + name, 0x110000)
        if a != b:
            aa = a.split(); bb = b.split()
            d = next(((x, y) for x, y in zip(aa, bb) if x != y), (aa[-1:], bb[-1:]))
            chk.corr_diff({'context': name}, d[1], d[0], 'per-code-point behaviour of the %s encoder (first differing run)' % name)
    return {'text': t, 'attr': E._quoteattr, 'cdata': cd}


SHORT_ALPHA = [u'&', u'<', u'>', u'"', u"'", u'\r', u'\n', u'\t', u'\x01', u'￾', u'\ud800', u']', u'a']


def short_strings(chk):
    n = 3 if chk.tier == 'quick' else 5
    for k in range(0, n + 1):
        for tup in itertools.product(SHORT_ALPHA, repeat=k):
            yield u''.join(tup)
    for s in (u']]>', u']]]>', u']]>]]>', u']>]]>', u'\r]]>', u']]\r>', u']\r]>', u'a]]>b\r\nc', u'"\'"', u"'\"'", u'&#13;', u'&amp;'):
        yield s
    # surrogate code points next to each other: a Python str may hold a HIGH and a LOW surrogate as two code points; XML can represent
    # neither, so the tree holds two unrepresentable characters (a filter that looks at more than one code point at a time,
    # e.g. one that joins the pair, is caught here)
    for s in SURROGATE_STRINGS:
        yield s
    # strings built from the very tokens the encoders emit (an encoder that post-processes its own output is fooled by these)
    for k in (1, 2, 3) if chk.tier != 'quick' else (1, 2):
        for tup in itertools.product(TOKENS, repeat=k):
            yield u''.join(tup)


HI_LO = [(u'\ud83d', u'\ude00'), (u'\ud800', u'\udc00'), (u'\udbff', u'\udfff'), (u'\ud800', u'\udfff'), (u'\udbff', u'\udc00')]
SURROGATE_STRINGS = []
for _h, _l in HI_LO:
    SURROGATE_STRINGS += [_h + _l, u'a' + _h + _l + u'b', _l + _h, _h + _h + _l, _h + _l + _l, _h + _l + _h + _l, _h + u'a' + _l,
                          u'\x01' + _h + _l + u'\x02', _h + _l + u'\U0001F600' + _h + _l, u'&' + _h + _l + u'<', u']]' + _h + _l + u'>',
                          u'"' + _h + _l + u"'", u'\r' + _h + _l + u'\n', u'\ufffe' + _h + _l + u'\uffff']
del _h, _l


TOKENS = [u'<![CDATA[', u']]>', u'&#13;', u'&#10;', u'&#9;', u'&amp;', u'&lt;', u'&gt;', u'&quot;', u'&apos;', u'<!--', u'-->', u'<?', u'?>',
          u'\r', u'\n', u'\t', u'"', u"'", u'x', u']', u'&', u'<', u'>', u'\x0c', u' xmlns:a="b"', u'/>', u'</a>']


def wrap_text(fs, s):
    return PROLOGUE + u'<a>' + fs['text'](s) + u'</a>' if s else PROLOGUE + u'<a></a>'


def wellformed(data_str):
    """(ok, tree or error) by expat; encoding to UTF-8 is part of the check (lone surrogates raise)"""
    try:
        b = data_str.encode('utf-8')
    except UnicodeEncodeError as e:
        return False, 'not encodable: %s' % e
    try:
        return True, X.expat_parse(b)
    except xml.parsers.expat.ExpatError as e:
        return False, 'expat: %s' % e


def strings_check(chk, drv, fs, want_identity):
    """all short strings over the XML-significant alphabet in the three contexts: model vs code (bytes), and the oracle"""
    cases = list(short_strings(chk))
    for ctx in ('text', 'attr', 'cdata'):
        ans = drv.batch('%s %s' % (ctx, enc_str(s)) for s in cases)
        for s, a in zip(cases, ans):
            real = fs[ctx](s)
            chk.corr()
            if a != 'ok ' + enc_str(real):
                chk.corr_diff({'context': ctx, 's': enc_str(s)}, real, a, 'encoder output on a short string')
            if ctx == 'attr':
                doc = PROLOGUE + u'<a b=' + real + u'/>'
            else:
                doc = PROLOGUE + u'<a>' + real + u'</a>'
            ok, res = wellformed(doc)
            chk.case((ctx, s), nontrivial=len(s) > 0)
            chk.count('short_' + ctx)
            if not ok:
                chk.fail('not-wellformed:' + ctx, {'context': ctx, 's': enc_str(s)}, '%s: %r' % (res, doc[-120:]))
            elif want_identity:
                exp = X.repl_illegal(s)
                got = (res[3][0][2] if ctx == 'attr' else u''.join(k[1] for k in res[4]))
                if got != exp:
                    sig = 'discouraged-codepoint' if any(X.is_discouraged(c) for c in s) else 'value-changed:' + ctx
                    chk.fail(sig, {'context': ctx, 's': enc_str(s)}, 'parsed back as %r, expected %r' % (got, exp))


def surrogate_pairs_check(chk, drv, fs, want_identity):
    """EVERY (high surrogate, low surrogate) pair of code points, adjacent, in the three positions: 1024 strings per position, each
    holding one high surrogate followed by each of the 1024 low surrogates in turn (quick: all high surrogates as text, every 8th
    as attribute value / CDATA; thorough: all in all three).  Model vs code (bytes) and the oracle: well-formed, and (C02) every
    one of the 2048 code points arrives as one U+FFFD"""
    lows = [chr(c) for c in range(0xDC00, 0xE000)]
    for ctx in ('text', 'attr', 'cdata'):
        step = 1 if (ctx == 'text' or chk.tier != 'quick') else 8
        his = [chr(c) for c in range(0xD800, 0xDC00, step)]
        cases = [u''.join(h + l for l in lows) for h in his]
        ans = drv.batch('%s %s' % (ctx, enc_str(s)) for s in cases)
        for h, s, a in zip(his, cases, ans):
            real = fs[ctx](s)
            chk.corr(); chk.count('surrogate_pairs_' + ctx, len(lows))
            chk.case(('surrogate-pairs', ctx, h))
            if a != 'ok ' + enc_str(real):
                chk.corr_diff({'context': ctx, 'high': '%x' % ord(h), 'low': 'dc00-dfff'}, real[:40], (dec_str(a[3:]) if a.startswith('ok ') else a)[:40],
                              'encoder output on a high surrogate followed by each low surrogate')
            doc = PROLOGUE + (u'<a b=' + real + u'/>' if ctx == 'attr' else u'<a>' + real + u'</a>')
            ok, res = wellformed(doc)
            got = None if not ok else (res[3][0][2] if ctx == 'attr' else u''.join(k[1] for k in res[4]))
            if ok and (not want_identity or got == X.repl_illegal(s)):
                continue
            # narrow down to one pair (the smallest input of the class), each pair on its own
            for l in lows:
                one = u'a' + h + l + u'b'
                r1 = fs[ctx](one)
                ok1, res1 = wellformed(PROLOGUE + (u'<a b=' + r1 + u'/>' if ctx == 'attr' else u'<a>' + r1 + u'</a>'))
                got1 = None if not ok1 else (res1[3][0][2] if ctx == 'attr' else u''.join(k[1] for k in res1[4]))
                if not ok1:
                    chk.fail('not-wellformed:' + ctx, {'context': ctx, 's': enc_str(one)}, '%s: %r' % (res1, r1)); break
                if want_identity and got1 != X.repl_illegal(one):
                    chk.fail('value-changed:' + ctx, {'context': ctx, 's': enc_str(one)},
                             'parsed back as %r, expected %r (two unrepresentable code points -> two U+FFFD)' % (got1, X.repl_illegal(one))); break
            else:
                if not ok:
                    chk.fail('not-wellformed:' + ctx, {'context': ctx, 's': enc_str(s)}, '%s' % (res,))
                else:
                    chk.fail('value-changed:' + ctx, {'context': ctx, 's': enc_str(s)}, 'parsed back as %r...' % (got[:20],))


def trees_check(chk, drv, want_identity, n=None, discouraged=False):
    """generated trees: toXml vs printNode∘rawRoot byte for byte; reference parser vs expat; the oracle"""
    n = n or (1500 if chk.tier == 'quick' else 60000)
    rng = chk.rng
    lines = []; metas = []
    for i in range(n):
        tr = X.rand_tree(rng, depth=rng.choice([1, 2, 3, 4]), discouraged=discouraged and i % 5 == 0)
        e = X.build(tr)
        w = X.walk(e)
        real = X.to_xml(e)
        tbl = X.ns_table()
        lines.append('render ' + X.wire_table(tbl) + ' ' + X.wire_tree(w))
        lines.append('parse ' + enc_str(PROLOGUE + real))
        metas.append((tr, w, real))
    ans = drv.batch(lines)
    for i, (tr, w, real) in enumerate(metas):
        a_render, a_parse = ans[2 * i], ans[2 * i + 1]
        doc = PROLOGUE + real
        chk.corr()
        if a_render != 'ok ' + enc_str(doc):
            chk.corr_diff({'tree': tr}, doc[:300], dec_str(a_render[3:])[:300] if a_render.startswith('ok ') else a_render,
                          'Element.toXml(0) vs printNode (rawRoot tbl t)')
        ok, res = wellformed(doc)
        chk.case(('tree', i), nontrivial=len(w[4]) > 0 or len(w[3]) > 0, sample={'tree': repr(tr)[:300], 'xml': doc[39:339]} if i < 3 else None)
        chk.count('trees'); chk.count('tree_nodes', count_nodes(w))
        if not ok:
            chk.fail('not-wellformed:tree', {'tree': tr}, '%s' % res)
            continue
        # reference parser vs expat (validates the specification side)
        if a_parse.startswith('ok '):
            got = X.sort_attrs(X.unwire_tree(a_parse[3:].split()))
            if got != X.sort_attrs(res):
                chk.corr_diff({'tree': tr}, repr(res)[:300], repr(got)[:300], 'reference parser vs expat: ' + str(X.first_diff(got, X.sort_attrs(res))))
        else:
            chk.corr_diff({'tree': tr}, 'expat accepts', a_parse, 'reference parser rejects an emitted stream expat accepts')
        if want_identity:
            exp = X.canon(w)
            got = X.sort_attrs(res)
            if got != exp:
                sig = 'discouraged-codepoint' if (X.has_discouraged(w) and X.canon(w, repl=hu_like) == got) else 'tree-changed'
                chk.fail(sig, {'tree': tr}, str(X.first_diff(got, exp)))


def adjacent_nodes_check(chk, drv, want_identity):
    """character data split over ADJACENT nodes (text+text, text+CDATA, CDATA+text): an encoder that looks at one node at a
    time must not rely on what a single string looks like (`]]` + `>`, `&` + `amp;`, `\r` + `\n`, `]]>` across nodes)"""
    from odf.element import Element, Text, CDATASection
    import itertools
    strings = set()
    for k in (2, 3):
        for tup in itertools.product([u']', u'>', u'&', u'<', u'\r', u'\n', u'a', u';', u'#'], repeat=k):
            strings.add(u''.join(tup))
    for a in TOKENS:
        strings.add(a)
        if chk.tier != 'quick':
            for b in TOKENS:
                strings.add(a + b)
    lines = []; metas = []
    for s in sorted(strings):
        for cut in range(1, len(s)):
            for kinds in (('T', 'T'), ('T', 'C'), ('C', 'T')):
                tr = ('E', u'', u'a', [], [(kinds[0], s[:cut]), (kinds[1], s[cut:])])
                e = X.build(tr)
                real = X.to_xml(e)
                lines.append('render ' + X.wire_table(X.ns_table()) + ' ' + X.wire_tree(X.walk(e)))
                metas.append((tr, real, s))
    ans = drv.batch(lines)
    for (tr, real, s), a in zip(metas, ans):
        doc = PROLOGUE + real
        chk.corr(); chk.count('adjacent_nodes')
        if a != 'ok ' + enc_str(doc):
            chk.corr_diff({'tree': tr}, doc[:200], dec_str(a[3:])[:200] if a.startswith('ok ') else a, 'adjacent character-data nodes')
        ok, res = wellformed(doc)
        chk.case(('adjacent', tr[4][0], tr[4][1]))
        if not ok:
            chk.fail('not-wellformed:adjacent-nodes', {'tree': tr}, '%s: %r' % (res, doc[39:200]))
        elif want_identity:
            got = u''.join(k[1] for k in res[4])
            if got != X.repl_illegal(s):
                chk.fail('value-changed:adjacent-nodes', {'tree': tr}, 'parsed back as %r, expected %r' % (got, X.repl_illegal(s)))


def hu_like(s):
    return u''.join(u'�' if (not X.is_xml_char(c) or X.is_discouraged(c)) else c for c in s)


def count_nodes(t):
    return 1 if t[0] != 'E' else 1 + sum(count_nodes(k) for k in t[4])


# ------------------------------------------------------------------ documents and their renderings
def rand_document(rng, allow_bad=True):
    """a text document with metadata, settings, styles, automatic styles and body, strings from the nasty alphabets"""
    from odf.opendocument import OpenDocumentText
    from odf import text, style, dc, meta, config, office
    from odf.element import Element, CDATASection
    def s():
        x = X.rand_string(rng, allow_bad) or u'x'
        if allow_bad and rng.random() < 0.12:
            # a high surrogate immediately followed by a low one (two unrepresentable code points), somewhere in the string
            h, l = rng.choice(HI_LO); k = rng.randint(0, len(x))
            x = x[:k] + h + l + x[k:]
        return x
    d = OpenDocumentText()
    d.meta.addElement(dc.Title(text=s()))
    d.meta.addElement(dc.Creator(text=s()))
    d.meta.addElement(meta.UserDefined(name=u'k', text=s()))
    if rng.random() < 0.7:
        cs = config.ConfigItemSet(name=u'ooo:view-settings')
        cs.addElement(config.ConfigItem(name=u'n1', type=u'string', text=s()))
        d.settings.addElement(cs)
    st = style.Style(name=u'S1', family=u'paragraph'); st.addElement(style.ParagraphProperties(attributes={'textalign': u'center'}))
    d.styles.addElement(st)
    a1 = style.Style(name=u'P1', family=u'paragraph'); a1.addElement(style.TextProperties(attributes={'fontname': s()}))
    d.automaticstyles.addElement(a1)
    for i in range(rng.randint(1, 4)):
        p = text.P(stylename=a1 if i % 2 else st)
        p.addText(s())
        sp = text.Span(); sp.addText(s()); p.addElement(sp)
        if rng.random() < 0.5:
            # half of the time through the document's own node factories (createCDATASection raised NameError before 756dde0)
            p.appendChild(CDATASection(s()) if rng.random() < 0.5 else d.createCDATASection(s()))
        if rng.random() < 0.3:
            p.appendChild(d.createTextNode(s()))
        if rng.random() < 0.3:
            p.addElement(d.createElement(text.Span))
        if rng.random() < 0.5:
            fe = Element(qname=(rng.choice([u'urn:example:foreign', u'']), u'thing'), check_grammar=False)
            fe.setAttrNS(rng.choice([u'urn:example:foreign', None]), u'attr', s())
            p.addElement(fe, check_grammar=False)
        p.addElement(text.A(href=s(), text=s()))
        d.text.addElement(p)
    return d


def renderings(d):
    """every XML stream the document can emit: name -> bytes/str"""
    out = {}
    out['xml()'] = d.xml()
    out['contentxml()'] = d.contentxml()
    out['stylesxml()'] = d.stylesxml()
    out['metaxml()'] = d.metaxml()
    out['settingsxml()'] = d.settingsxml()
    buf = io.BytesIO(); d.save(buf); buf.seek(0)
    z = zipfile.ZipFile(buf)
    for n in z.namelist():
        # only the members the library itself PRODUCES (the parts and the manifest, also of embedded objects); other
        # .xml members are opaque files carried over from a loaded package, not "XML the library emits"
        if n == 'META-INF/manifest.xml' or n.rsplit('/', 1)[-1] in ('content.xml', 'styles.xml', 'meta.xml', 'settings.xml') \
                and (n.count('/') == 0 or n.startswith('Object ')):
            out['zip:' + n] = z.read(n)
    # the other two ways to produce a package: write() to a file object, save() to a file NAME with the suffix added
    import tempfile, shutil, glob as _glob
    b2 = io.BytesIO(); d.write(b2)
    z2 = zipfile.ZipFile(io.BytesIO(b2.getvalue()))
    for n in z2.namelist():
        if n in ('content.xml', 'styles.xml', 'meta.xml', 'settings.xml', 'META-INF/manifest.xml'):
            out['write:' + n] = z2.read(n)
    tmp = tempfile.mkdtemp(prefix='odfverif-')
    try:
        d.save(os.path.join(tmp, 'doc'), True)
        files = _glob.glob(os.path.join(tmp, 'doc*'))
        if len(files) == 1:
            z3 = zipfile.ZipFile(files[0])
            for n in z3.namelist():
                if n in ('content.xml', 'styles.xml', 'meta.xml', 'settings.xml', 'META-INF/manifest.xml'):
                    out['savefile:' + n] = z3.read(n)
        else:
            out['savefile:content.xml'] = b''          # no file or several: reported as not well-formed
    finally:
        shutil.rmtree(tmp, ignore_errors=True)
    return out


def part_models(d):
    """the four package parts as the MODEL assembles them: (name, wrapper description with the children the code selects)"""
    from odf import office
    def wrap(factory, kids):
        w = X.walk(factory())
        return ('E', w[1], w[2], w[3], kids)
    def autostyles(used, long_form):
        kids = [X.walk(s) for s in used]
        if not kids and long_form:
            kids = [('T', u'')]          # stylesxml() writes open and close tag even without styles: <a></a>
        w = X.walk(office.AutomaticStyles())
        return ('E', w[1], w[2], w[3], kids)
    out = []
    kids = []
    if d.scripts.hasChildNodes(): kids.append(X.walk(d.scripts))
    if d.fontfacedecls.hasChildNodes(): kids.append(X.walk(d.fontfacedecls))
    kids.append(autostyles(d._used_auto_styles([d.styles, d.body]), False))
    kids.append(X.walk(d.body))
    out.append(('contentxml()', wrap(office.DocumentContent, kids)))
    kids = []
    if d.fontfacedecls.hasChildNodes(): kids.append(X.walk(d.fontfacedecls))
    kids.append(X.walk(d.styles))
    kids.append(autostyles(d._used_auto_styles([d.masterstyles]), True))
    if d.masterstyles.hasChildNodes(): kids.append(X.walk(d.masterstyles))
    out.append(('stylesxml()', wrap(office.DocumentStyles, kids)))
    out.append(('metaxml()', wrap(office.DocumentMeta, [X.walk(d.meta)])))
    out.append(('settingsxml()', wrap(office.DocumentSettings, [X.walk(d.settings)])))
    return out


def documents_check(chk, want_identity, n=None, drv=None):
    n = n or (40 if chk.tier == 'quick' else 1000)
    for i in range(n):
        try:
            d = rand_document(chk.rng)
        except Exception as e:   # generator problem, not a property matter
            chk.notes.append('document generator: %r' % (e,)); continue
        if drv is not None:
            # part assembly: the bytes of the four parts vs the model's renderPart on the children the code selects
            try:
                part_models(d)                     # creates the wrapper elements once, so their namespaces are registered
                real = {}; tbls = {}
                for name, f in (('contentxml()', d.contentxml), ('stylesxml()', d.stylesxml), ('metaxml()', d.metaxml), ('settingsxml()', d.settingsxml)):
                    real[name] = f(); tbls[name] = X.ns_table()      # the table as it was when the part was written
                models = part_models(d)
                ans = drv.batch('renderpart ' + X.wire_table(tbls[name]) + ' ' + X.wire_tree(w) for name, w in models)
                for (name, w), a in zip(models, ans):
                    r = real[name]
                    r = r.decode('utf-8') if isinstance(r, bytes) else r
                    chk.corr(); chk.count('part_assembly')
                    if a != 'ok ' + enc_str(r):
                        chk.corr_diff({'doc': i, 'seed': chk.seed, 'part': name}, r[:400], dec_str(a[3:])[:400] if a.startswith('ok ') else a,
                                      'bytes of %s vs renderPart on the children the code selects' % name)
            except UnicodeEncodeError:
                pass   # reported below as not-encodable
        try:
            rs = renderings(d)
        except UnicodeEncodeError as e:
            chk.fail('not-encodable:document', {'doc': i, 'seed': chk.seed}, 'rendering raised %r' % (e,))
            continue
        for name, data in sorted(rs.items()):
            chk.case(('doc', i, name)); chk.count('rendering_' + name.split(':')[0])
            if isinstance(data, str):
                try:
                    data = data.encode('utf-8')
                except UnicodeEncodeError as e:
                    chk.fail('not-encodable:' + name, {'doc': i, 'seed': chk.seed, 'rendering': name}, repr(e)); continue
            try:
                tree = X.expat_parse(data)
            except xml.parsers.expat.ExpatError as e:
                chk.fail('not-wellformed:' + name, {'doc': i, 'seed': chk.seed, 'rendering': name}, '%s: %r' % (e, data[:200]))
                continue
            if want_identity and name == 'xml()':
                exp = X.canon(X.walk(d.topnode))
                got = X.sort_attrs(tree)
                if got != exp:
                    sig = 'discouraged-codepoint' if X.canon(X.walk(d.topnode), repl=hu_like) == got else 'tree-changed:' + name
                    chk.fail(sig, {'doc': i, 'seed': chk.seed, 'rendering': name}, str(X.first_diff(got, exp)))
            if want_identity and name in ('contentxml()', 'zip:content.xml'):
                body = [k for k in tree[4] if k[2] == 'body']
                exp = X.canon(X.walk(d.body))
                if not body or X.sort_attrs(body[0]) != exp:
                    sig = 'discouraged-codepoint' if body and X.canon(X.walk(d.body), repl=hu_like) == X.sort_attrs(body[0]) else 'tree-changed:' + name
                    chk.fail(sig, {'doc': i, 'seed': chk.seed, 'rendering': name}, str(X.first_diff(X.sort_attrs(body[0]), exp)) if body else 'no body')


def loaded_samples_check(chk, want_identity=False):
    """trees obtained by load(): every sample package of the repository is loaded and all its renderings must be
    well-formed (C01); with want_identity the flat rendering must parse back to the loaded tree (C02)"""
    import glob
    from odf.opendocument import load
    files = sorted(glob.glob(os.path.join(common.REPO, 'tests', 'examples', '*.od?')) + glob.glob(os.path.join(common.REPO, 'samples', '*.od?'))
                   + glob.glob(os.path.join(common.REPO, 'examples', '*.od?')))
    if chk.tier == 'quick':
        chk.rng.shuffle(files); files = sorted(files[:12])
    for path in files:
        name = os.path.basename(path)
        try:
            d = load(path)
        except Exception as e:      # refusing a package (DOCTYPE, C13) is not a rendering matter
            chk.count('sample_not_loadable'); continue
        try:
            rs = renderings(d)
        except UnicodeEncodeError as e:
            chk.fail('not-encodable:loaded', {'sample': name}, repr(e)); continue
        except Exception as e:
            chk.fail('rendering-raises:loaded', {'sample': name}, repr(e)); continue
        for rname, data in sorted(rs.items()):
            chk.case(('sample', name, rname)); chk.count('loaded_renderings')
            if isinstance(data, str):
                data = data.encode('utf-8')
            try:
                tree = X.expat_parse(data)
            except xml.parsers.expat.ExpatError as e:
                chk.fail('not-wellformed:loaded:' + rname, {'sample': name, 'rendering': rname}, '%s: %r' % (e, data[:200])); continue
            if want_identity and rname == 'xml()':
                exp = X.canon(X.walk(d.topnode)); got = X.sort_attrs(tree)
                if got != exp:
                    sig = 'discouraged-codepoint' if X.canon(X.walk(d.topnode), repl=hu_like) == got else 'tree-changed:loaded'
                    chk.fail(sig, {'sample': name, 'rendering': rname}, str(X.first_diff(got, exp)))


def tableless_kwargs_check(chk):
    """elements without an attribute table (outside the ODF vocabulary, or an ODF element whose allowed_attributes row is
    missing) constructed with keyword attributes: the call may raise AttributeError, but whatever is built must serialise to
    well-formed XML (the constructor used to store the keyword under a key that toXml() cannot write)"""
    from odf import grammar
    from odf.element import Element
    qnames = [(u'urn:example:foreign', u'thing'), (u'', u'plain')]
    qnames += sorted(q for q in grammar.allowed_children if q not in grammar.allowed_attributes)[:40]
    for q in qnames:
        for kw in (u'numformat', u'foo', u'a', u'xy', u'stylename'):
            chk.case(('tableless', q, kw)); chk.count('tableless_kwargs')
            try:
                e = Element(qname=q, check_grammar=False, **{str(kw): u'v&"'})
            except AttributeError:
                chk.count('tableless_kwargs_refused'); continue
            except Exception as ex:
                chk.fail('tableless-kwargs-raises:' + type(ex).__name__, {'qname': list(q), 'keyword': kw}, repr(ex)); continue
            try:
                out = X.to_xml(e)
            except Exception as ex:
                chk.fail('serialise-raises:keyword-attribute', {'qname': list(q), 'keyword': kw}, 'toXml raised %r' % (ex,)); continue
            ok, res = wellformed(PROLOGUE + out)
            if not ok:
                chk.fail('not-wellformed:keyword-attribute', {'qname': list(q), 'keyword': kw}, '%s: %r' % (res, out[:200]))


# ------------------------------------------------------------------ namespace histories (fresh interpreters)
HIST_NS = [u'urn:h:one', u'urn:h:two', u'', u'http://www.w3.org/1998/Math/MathML', u'urn:oasis:names:tc:opendocument:xmlns:text:1.0',
           u'urn:h:with"quote', u'urn:h:three', u'http://www.w3.org/XML/1998/namespace', u'urn:h:amp&lt']

_CHILD = r'''
import sys, json, io
sys.path.insert(0, %(repo)r)
sys.path.insert(0, %(harness)r)
import xmlcorr as X
from odf.element import Element
spec = json.loads(sys.stdin.read())
_real_stdout = sys.stdout; sys.stdout = sys.stderr     # the library prints diagnostics; keep them out of the answer
if spec.get('import_first', True):
    # a program imports the whole library at its top: module-level state of odf.opendocument (anything computed from
    # nsdict / Element.namespaces at import time) then predates every tree the program builds
    import odf.opendocument, odf.load
out = {}
prefixes = []
for ns in spec.get('history', []):
    prefixes.append(Element.get_nsprefix(Element.__new__(Element), ns))
out['prefixes'] = prefixes
out['table'] = [[k, v] for k, v in Element.namespaces.items()]
def tup(x):
    return tuple(tup(i) for i in x) if isinstance(x, list) else x
def fix(n):
    if n[0] in 'TC': return (n[0], n[1])
    return ('E', n[1], n[2], [tuple(a) for a in n[3]], [fix(k) for k in n[4]])
early = [X.build(fix(t)) for t in spec.get('trees_before', [])]     # documents already in memory when the history happens
for pre in spec.get('preload', []):
    from odf.opendocument import load
    try:
        load(pre)
    except Exception as ex:
        out.setdefault('preload_errors', []).append(repr(ex))
for item in spec.get('synthetic', []):
    # a package whose content.xml binds a prefix odfpy reserves for another namespace to a foreign namespace
    import io, zipfile
    from odf.opendocument import OpenDocumentText, load
    from odf.text import P
    d = OpenDocumentText(); d.text.addElement(P(text=u'x'))
    b = io.BytesIO(); d.save(b)
    zin = zipfile.ZipFile(io.BytesIO(b.getvalue())); ob = io.BytesIO(); zout = zipfile.ZipFile(ob, 'w')
    for info in zin.infolist():
        data = zin.read(info.filename)
        if info.filename == 'content.xml':
            x = data.decode('utf-8')
            x = x.replace(u'<text:p>x</text:p>', u'<text:p>x<%s:thing xmlns:%s="%s" %s:a="1"/></text:p>' % (item[0], item[0], item[1], item[0]), 1)
            data = x.encode('utf-8')
        zout.writestr(info, data)
    zout.close()
    try:
        load(io.BytesIO(ob.getvalue()))
    except Exception as ex:
        out.setdefault('preload_errors', []).append(repr(ex))
fresh = spec.get('fresh_doc')
if fresh:
    # ONE document in a fresh interpreter: the first thing this process renders (which namespaces are registered when a root
    # start tag is written depends on what was constructed before - nothing else has been here)
    import io, zipfile
    import odf.opendocument as OD, odf.office as OF
    if fresh['gen']:
        d = getattr(OD, 'OpenDocument' + fresh['cls'])()
    else:
        mt = {'Text': 'text', 'Spreadsheet': 'spreadsheet', 'Presentation': 'presentation', 'Drawing': 'graphics',
              'Chart': 'chart', 'Image': 'image', 'TextMaster': 'text-master'}[fresh['cls']]
        d = OD.OpenDocument(u'application/vnd.oasis.opendocument.' + mt, add_generator=False)
        body = {'TextMaster': 'Text'}.get(fresh['cls'], fresh['cls'])
        d.body.addElement(getattr(OF, body)())
    if fresh.get('title'):
        from odf import dc
        d.meta.addElement(dc.Title(text=u'a < b'))
    outs = []
    for call in fresh['order']:
        if call == 'save':
            b = io.BytesIO(); d.save(b); z = zipfile.ZipFile(io.BytesIO(b.getvalue()))
            for n in z.namelist():
                if n.endswith('.xml'):
                    outs.append(['zip:' + n, z.read(n).decode('utf-8')])
        else:
            r = getattr(d, call)()
            outs.append([call, r.decode('utf-8') if isinstance(r, bytes) else r])
    out['fresh_outs'] = outs
for ns in spec.get('touch', []):
    Element(qname=(ns, u'probe'), check_grammar=False)
docs = []
for e in early:
    docs.append(X.to_xml(e))
if spec.get('twice'):
    for e in early:
        docs.append(X.to_xml(e))
for t in spec.get('trees', []):
    e = X.build(fix(t))
    docs.append(X.to_xml(e))
out['docs'] = docs
out['table_after'] = [[k, v] for k, v in Element.namespaces.items()]
_real_stdout.write(json.dumps(out))
'''


def run_child(spec):
    code = _CHILD.replace('%(repo)r', repr(common.REPO)).replace('%(harness)r', repr(os.path.join(common.VERIF, 'harness')))
    r = subprocess.run([sys.executable, '-c', code], input=json.dumps(spec), stdout=subprocess.PIPE, stderr=subprocess.PIPE,
                       universal_newlines=True)
    if r.returncode != 0:
        raise common.InfraError('child interpreter failed: ' + r.stderr[-800:])
    return json.loads(r.stdout)


def histories_check(chk, drv, n=None):
    """random histories of get_nsprefix calls in a FRESH interpreter vs the model's `run initial`"""
    n = n or (25 if chk.tier == 'quick' else 200)
    for i in range(n):
        hist = [chk.rng.choice(HIST_NS) for _ in range(chk.rng.randint(0, 8))]
        out = run_child({'history': hist})
        ans = drv.ask('nsrun ' + ' '.join(enc_str(x) for x in hist)) if hist else 'ok  | '
        impl = 'ok ' + ' '.join(enc_str(p) for p in out['prefixes']) + ' | ' + ' '.join(enc_str(a) + ' ' + enc_str(b) for a, b in out['table'])
        chk.corr(); chk.count('ns_histories')
        if impl.split() != ans.split():
            chk.corr_diff({'history': hist}, impl, ans, 'prefixes returned by get_nsprefix and final Element.namespaces')
        chk.case(('hist', tuple(hist)), nontrivial=len(hist) > 0, sample={'history': hist, 'table': out['table']} if i < 2 else None)
        table_oracle(chk, out['table'], {'history': hist})


def table_oracle(chk, table, case):
    """C14/C01 on the real table: prefix <-> namespace bijection, NCName prefixes, empty namespace never bound"""
    import re
    pre = [p for _, p in table]; nss = [n for n, _ in table]
    if len(set(pre)) != len(pre):
        chk.fail('prefix-bound-twice', case, 'prefixes %r' % pre)
    if len(set(nss)) != len(nss):
        chk.fail('namespace-bound-twice', case, 'namespaces %r' % nss)
    for n, p in table:
        if n in (u'', None):
            chk.fail('empty-namespace-bound', case, 'prefix %r bound to the empty namespace' % p)
        if not re.match(r'^[A-Za-z_][A-Za-z0-9_.\-]*\Z', p) or p == 'xmlns':
            chk.fail('bad-prefix', case, 'prefix %r' % p)


def alive_across_load_check(chk):
    """a document that is alive while the process loads other packages / registers other namespaces must serialise, afterwards and
    twice, to what a fresh interpreter writes (C01: "whatever the process has serialised before"; C14: declarations persist)"""
    # fixed cases: a tree with foreign namespaces (element / attribute only / both) is alive while another package is loaded or
    # another document is created and saved; serialised afterwards (twice) it must be what a fresh interpreter writes
    F1, F2 = u'urn:example:foreign', u'http://example.org/a?b=1&c=2'
    T = u'urn:oasis:names:tc:opendocument:xmlns:text:1.0'
    alive = [('E', F1, u'foo', [], [('T', u'x')]),
             ('E', T, u'p', [(F2, u'custom', u'v')], []),
             ('E', F1, u'foo', [(F2, u'custom', u'v')], [('E', F2, u'span', [(F1, u'lang', u'w')], [('T', u'y')])])]
    import glob
    samples0 = sorted(glob.glob(os.path.join(common.REPO, 'tests', 'examples', '*.od*')))
    for label, extra in (('synthetic-load', {'synthetic': [[u'zz', u'urn:foreign:zz']]}),
                         ('sample-load', {'preload': samples0[:1]}),
                         ('two-loads', {'preload': samples0[:2], 'synthetic': [[u'zz', u'urn:foreign:zz']]}),
                         ('touch-only', {'touch': [u'urn:new:a', u'urn:new:b']})):
        fresh = run_child({'trees_before': alive, 'twice': True})
        spec = dict(extra); spec.update({'trees_before': alive, 'twice': True})
        after = run_child(spec)
        chk.case(('alive-across', label)); chk.count('alive_across_load_cases')
        for k, (a, b) in enumerate(zip(fresh['docs'], after['docs'])):
            ok1, t1 = wellformed(PROLOGUE + a); ok2, t2 = wellformed(PROLOGUE + b)
            case = {'alive': alive[k % len(alive)], 'then': extra, 'serialisation': 1 + k // len(alive)}
            if not ok1:
                chk.fail('not-wellformed-fresh', case, str(t1))
            elif not ok2:
                chk.fail('not-wellformed-after-history', case, str(t2))
            elif X.sort_attrs(t1) != X.sort_attrs(t2):
                chk.fail('history-dependent-infoset', case, str(X.first_diff(X.sort_attrs(t1), X.sort_attrs(t2))))



def fresh_process_documents_check(chk):
    """the FIRST document a process renders: every document class, with and without the generator element / other metadata, each
    rendering call first - every stream well-formed (a namespace must be registered before the root start tag that declares it is
    written, whatever the process constructed before: here, nothing)"""
    classes = ['Text', 'Spreadsheet', 'Presentation', 'Drawing', 'Chart', 'Image', 'TextMaster']
    calls = ['metaxml', 'settingsxml', 'stylesxml', 'contentxml', 'xml', 'save']
    recs = []
    for i, cls in enumerate(classes):
        recs.append({'cls': cls, 'gen': False, 'title': False, 'order': [calls[i % len(calls)]] + calls})
    for i, first in enumerate(calls):
        recs.append({'cls': classes[i % 2], 'gen': False, 'title': bool(i % 2), 'order': [first] + calls})
        recs.append({'cls': classes[(i + 1) % 3], 'gen': True, 'title': False, 'order': [first]})
    for rec in recs:
        out = run_child({'fresh_doc': rec, 'import_first': True})
        chk.case(('fresh-doc', rec['cls'], rec['gen'], rec['title'], rec['order'][0])); chk.count('fresh_process_documents')
        for name, text in out.get('fresh_outs', []):
            ok, t = wellformed(text)
            if not ok:
                chk.fail('not-wellformed-in-fresh-process', {'document': rec, 'rendering': name}, '%s: %s' % (t, text[:300]))
                break


# ------------------------------------------------------------------ the first rendering of a process, compared with the tree (C02)
_CHILD_FIRST = r"""
import sys, json, io, base64, zipfile
sys.path.insert(0, %(repo)r)
sys.path.insert(0, %(harness)r)
sys.dont_write_bytecode = True
spec = json.loads(sys.stdin.read())
_real_stdout = sys.stdout; sys.stdout = sys.stderr
import xmlcorr as X, xmlchecks as C          # neither imports the library
import odf.opendocument as OD
from odf.element import Element
src = spec['source']
if src['kind'] == 'loaded':
    d = OD.load(io.BytesIO(base64.b64decode(src['package'])))
else:
    if src['gen']:
        d = getattr(OD, 'OpenDocument' + src['cls'])()
    else:
        import odf.office as OF
        mt = {'Text': 'text', 'Spreadsheet': 'spreadsheet', 'Presentation': 'presentation', 'Drawing': 'graphics',
              'Chart': 'chart', 'Image': 'image', 'TextMaster': 'text-master'}[src['cls']]
        d = OD.OpenDocument(u'application/vnd.oasis.opendocument.' + mt, add_generator=False)
        d.body.addElement(getattr(OF, {'TextMaster': 'Text'}.get(src['cls'], src['cls']))())
    if src.get('dc'):
        from odf import dc
        d.meta.addElement(dc.Title(text=u'a < b & c'))
        d.meta.addElement(dc.Creator(text=u'N.N.'))
table_before = [[k, v] for k, v in Element.namespaces.items()]
SECTION = {'metaxml': 'meta', 'settingsxml': 'settings', 'stylesxml': 'styles', 'contentxml': 'body', 'xml': 'topnode',
           'meta.xml': 'meta', 'settings.xml': 'settings', 'styles.xml': 'styles', 'content.xml': 'body', 'META-INF/manifest.xml': 'manifest'}
outs = []
def record(name, key, data, table_pre=None):
    # the stream, the section of the in-memory tree it was written for (walked right after the call: metaxml() itself puts
    # the generator entry into office:meta), and the namespace table as it is now
    sec = getattr(d, SECTION[key], None)
    rec = {'name': name, 'section': SECTION[key], 'text': data.decode('utf-8') if isinstance(data, bytes) else data,
           'tree': X.walk(sec) if sec is not None else None, 'table': [[k, v] for k, v in Element.namespaces.items()]}
    if key in ('metaxml', 'settingsxml', 'stylesxml', 'contentxml'):
        rec['part_model'] = dict(C.part_models(d))[key + '()']
        # the table the root start tag was written from: metaxml() creates the generator entry first and then writes; contentxml() and
        # stylesxml() look up style references AFTER the root tag is out (getAttrNS registers the namespaces it asks about)
        if key in ('stylesxml', 'contentxml'):
            rec['table'] = table_pre
    outs.append(rec)
for call in spec['order']:
    if call in ('save', 'write'):
        b = io.BytesIO(); getattr(d, call)(b); z = zipfile.ZipFile(io.BytesIO(b.getvalue()))
        for n in z.namelist():
            if n in SECTION:
                record(call + ':' + n, n, z.read(n))
    else:
        pre = [[k, v] for k, v in Element.namespaces.items()]
        record(call + '()', call, getattr(d, call)(), pre)
_real_stdout.write(json.dumps({'table_before': table_before, 'outs': outs}))
"""


def run_child_first(spec):
    code = _CHILD_FIRST.replace('%(repo)r', repr(common.REPO)).replace('%(harness)r', repr(os.path.join(common.VERIF, 'harness')))
    r = subprocess.run([sys.executable, '-c', code], input=json.dumps(spec), stdout=subprocess.PIPE, stderr=subprocess.PIPE,
                       universal_newlines=True)
    if r.returncode != 0:
        return {'error': r.stderr[-800:]}
    return json.loads(r.stdout)


def dc_only_package(meta_kind):
    """a package as another producer writes it, made with zipfile and literal XML: meta.xml holds Dublin Core entries only
    ('dc'), is absent ('none'), or holds a meta:* entry as office suites write it ('meta', the ordinary case)"""
    import base64
    MT = u'application/vnd.oasis.opendocument.text'
    decl = (u' xmlns:office="urn:oasis:names:tc:opendocument:xmlns:office:1.0" xmlns:text="urn:oasis:names:tc:opendocument:xmlns:text:1.0"'
            u' xmlns:dc="http://purl.org/dc/elements/1.1/" xmlns:meta="urn:oasis:names:tc:opendocument:xmlns:meta:1.0" office:version="1.2"')
    entries = {'dc': u'<dc:title>Minutes &amp; more</dc:title><dc:creator>N.N.</dc:creator>', 'none': None,
               'meta': u'<dc:title>Minutes</dc:title><meta:generator>SomeOffice/1.0</meta:generator><meta:editing-cycles>3</meta:editing-cycles>'}[meta_kind]
    buf = io.BytesIO(); z = zipfile.ZipFile(buf, 'w')
    z.writestr('mimetype', MT)
    z.writestr('content.xml', (PROLOGUE + u'<office:document-content%s><office:body><office:text><text:p>Hello</text:p></office:text>'
                               u'</office:body></office:document-content>' % decl).encode('utf-8'))
    if entries is not None:
        z.writestr('meta.xml', (PROLOGUE + u'<office:document-meta%s><office:meta>%s</office:meta></office:document-meta>' % (decl, entries)).encode('utf-8'))
    z.writestr('META-INF/manifest.xml', (PROLOGUE + u'<manifest:manifest xmlns:manifest="urn:oasis:names:tc:opendocument:xmlns:manifest:1.0">'
               u'<manifest:file-entry manifest:full-path="/" manifest:media-type="%s"/>'
               u'<manifest:file-entry manifest:full-path="content.xml" manifest:media-type="text/xml"/>%s</manifest:manifest>'
               % (MT, u'<manifest:file-entry manifest:full-path="meta.xml" manifest:media-type="text/xml"/>' if entries is not None else u'')).encode('utf-8'))
    z.close()
    return base64.b64encode(buf.getvalue()).decode('ascii')


def first_render_specs(chk):
    calls = ['metaxml', 'save', 'write', 'xml', 'contentxml', 'stylesxml', 'settingsxml']
    classes = ['Text', 'Spreadsheet', 'Presentation', 'Drawing', 'Chart', 'Image', 'TextMaster']
    specs = []
    for i, first in enumerate(calls):
        rest = [c for c in calls if c != first]
        # built without the generator entry: nothing of the meta namespace exists when the first stream is written
        specs.append({'source': {'kind': 'built', 'cls': classes[i % len(classes)], 'gen': False, 'dc': bool((i + 1) % 3)}, 'order': [first] + rest})
        # loaded from a package whose meta.xml has only dc:* entries / that has no meta.xml
        specs.append({'source': {'kind': 'loaded', 'meta': 'dc' if i % 2 == 0 else 'none'}, 'order': [first] + rest})
        if chk.tier != 'quick' or first in ('metaxml', 'save', 'write'):
            specs.append({'source': {'kind': 'loaded', 'meta': 'none' if i % 2 == 0 else 'dc'}, 'order': [first, first] + rest})
            specs.append({'source': {'kind': 'built', 'cls': classes[(i + 3) % len(classes)], 'gen': True, 'dc': True}, 'order': [first] + rest})
            specs.append({'source': {'kind': 'loaded', 'meta': 'meta'}, 'order': [first] + rest})
    if chk.tier != 'quick':
        for cls in classes:
            for first in calls:
                specs.append({'source': {'kind': 'built', 'cls': cls, 'gen': False, 'dc': False}, 'order': [first, 'metaxml', 'save']})
    return specs


def first_render_one(chk, spec, drv=None):
    """one fresh interpreter: every stream parsed with expat and compared with the section of the tree it was written for"""
    full = dict(spec)
    if spec['source']['kind'] == 'loaded':
        full['source'] = dict(spec['source'], package=dc_only_package(spec['source']['meta']))
    out = run_child_first(full)
    chk.case(('first-render', json.dumps(spec, sort_keys=True))); chk.count('first_render_processes')
    if 'error' in out:
        chk.fail('first-render-raises', {'first_render': spec}, out['error'][-400:]); return
    def fix(n):
        if n[0] in 'TC': return (n[0], n[1])
        return ('E', n[1], n[2], [tuple(a) for a in n[3]], [fix(k) for k in n[4]])
    lines = []; metas = []
    for k, rec in enumerate(out['outs']):
        name = rec['name']; chk.count('first_render_streams')
        case = {'first_render': spec, 'rendering': name, 'position': k}
        if drv is not None and 'part_model' in rec:
            lines.append('renderpart ' + X.wire_table([tuple(x) for x in rec['table']]) + ' ' + X.wire_tree(fix(rec['part_model'])))
            metas.append((case, rec['text']))
        try:
            tree = X.expat_parse(rec['text'].encode('utf-8'))
        except xml.parsers.expat.ExpatError as e:
            chk.fail('first-render-unparseable:' + name.split(':')[0], case, '%s: %s' % (e, rec['text'][:300])); continue
        if rec['tree'] is not None:
            exp = X.canon(fix(rec['tree']))
            if rec['section'] in ('topnode', 'manifest'):
                got = [X.sort_attrs(tree)]
            else:
                got = [X.sort_attrs(c) for c in tree[4] if c[0] == 'E' and (c[1], c[2]) == (exp[1], exp[2])]
            if got != [exp]:
                sig = 'discouraged-codepoint' if got and X.canon(fix(rec['tree']), repl=hu_like) == got[0] else 'tree-changed:first-render:' + name.split(':')[0]
                chk.fail(sig, case, str(X.first_diff(got[0], exp)) if len(got) == 1 else '%d sections <%s> in the stream' % (len(got), exp[2]))
    if lines:
        for (case, text), a in zip(metas, drv.batch(lines)):
            chk.corr(); chk.count('first_render_part_assembly')
            if a != 'ok ' + enc_str(text):
                chk.corr_diff(case, text[:400], dec_str(a[3:])[:400] if a.startswith('ok ') else a,
                              'first stream(s) of a process vs renderPart with the namespace table of that moment')


def first_render_identity_check(chk, drv=None):
    """C02 on the FIRST renderings of a process (fresh interpreter each): a document that holds nothing of the meta namespace yet
    (built with add_generator=False, or loaded from a package whose meta.xml has only dc:* entries / no meta.xml), then
    metaxml() / save() / write() / xml() / ... as the very first stream the process writes.  A stream that cannot be parsed
    gives back no tree at all; one that parses must give back the section it was written for."""
    for spec in first_render_specs(chk):
        first_render_one(chk, spec, drv)


# ------------------------------------------------------------------ histories with load(): source prefixes of the generated form ns<k>
_CHILD_HIST = r"""
import sys, json, io, base64
sys.path.insert(0, %(repo)r)
sys.path.insert(0, %(harness)r)
sys.dont_write_bytecode = True
spec = json.loads(sys.stdin.read())
_real_stdout = sys.stdout; sys.stdout = sys.stderr
import xmlcorr as X, xmlchecks as C          # neither imports the library
import odf.opendocument as OD, odf.load
from odf.element import Element
from odf.text import P
def fix(n):
    if n[0] in 'TC': return (n[0], n[1])
    return ('E', n[1], n[2], [tuple(a) for a in n[3]], [fix(k) for k in n[4]])
alive = [X.build(fix(t)) for t in spec.get('early', [])]      # trees in memory before the history happens
docs = []
errors = []
for step in spec['steps']:
    if step[0] == 'load':
        try:
            docs.append(OD.load(io.BytesIO(base64.b64decode(step[1]))))
        except Exception as ex:
            errors.append(repr(ex))
    elif step[0] == 'touch_attr':        # the program's own extension attribute, on a paragraph of the latest document
        p = P(text=u'annotated'); p.setAttrNS(step[1], u'mark', u'x')
        if not docs:
            docs.append(OD.OpenDocumentText())
        (docs[-1].text if hasattr(docs[-1], 'text') else docs[-1].body).addElement(p, check_grammar=False)
    elif step[0] == 'touch_elem':
        alive.append(Element(qname=(step[1], u'probe'), check_grammar=False))
    elif step[0] == 'build':
        alive.append(X.build(fix(step[1])))
streams = []
def add(label, data):
    streams.append([label, data.decode('utf-8') if isinstance(data, bytes) else data])
for i, d in enumerate(docs):
    for name, data in sorted(C.renderings(d).items()):
        add('doc%d.%s' % (i, name), data)
fresh = OD.OpenDocumentText(); fresh.text.addElement(P(text=u'fresh'))       # the table is process-wide: a new document too
for name, data in sorted(C.renderings(fresh).items()):
    add('fresh.' + name, data)
for i, e in enumerate(alive):
    add('tree%d.toXml' % i, C.PROLOGUE + X.to_xml(e))
_real_stdout.write(json.dumps({'streams': streams, 'errors': errors, 'table': [[k, v] for k, v in Element.namespaces.items()]}))
"""


def run_child_hist(spec):
    code = _CHILD_HIST.replace('%(repo)r', repr(common.REPO)).replace('%(harness)r', repr(os.path.join(common.VERIF, 'harness')))
    r = subprocess.run([sys.executable, '-c', code], input=json.dumps(spec), stdout=subprocess.PIPE, stderr=subprocess.PIPE,
                       universal_newlines=True)
    if r.returncode != 0:
        return {'error': r.stderr[-800:]}
    return json.loads(r.stdout)


def foreign_prefix_package(bindings):
    """a text package as another producer writes it (zipfile + literal XML): the root of content.xml binds each (prefix, namespace)
    of `bindings` - namespaces the library has no name for - and the body uses each on an attribute and on an element"""
    import base64
    MT = u'application/vnd.oasis.opendocument.text'
    decl = (u' xmlns:office="urn:oasis:names:tc:opendocument:xmlns:office:1.0" xmlns:text="urn:oasis:names:tc:opendocument:xmlns:text:1.0"'
            + u''.join(u' xmlns:%s="%s"' % (p, n) for p, n in bindings) + u' office:version="1.2"')
    body = u''.join(u'<text:p %s:reviewed="yes">Hello<%s:thing %s:a="1"/></text:p>' % (p, p, p) for p, n in bindings)
    buf = io.BytesIO(); z = zipfile.ZipFile(buf, 'w')
    z.writestr('mimetype', MT)
    z.writestr('content.xml', (PROLOGUE + u'<office:document-content%s><office:body><office:text>%s</office:text></office:body>'
                               u'</office:document-content>' % (decl, body)).encode('utf-8'))
    z.writestr('META-INF/manifest.xml', (PROLOGUE + u'<manifest:manifest xmlns:manifest="urn:oasis:names:tc:opendocument:xmlns:manifest:1.0">'
               u'<manifest:file-entry manifest:full-path="/" manifest:media-type="%s"/>'
               u'<manifest:file-entry manifest:full-path="content.xml" manifest:media-type="text/xml"/></manifest:manifest>' % MT).encode('utf-8'))
    z.close()
    return base64.b64encode(buf.getvalue()).decode('ascii')


def generated_prefix_histories(chk):
    """histories: load() of a package that binds a prefix of the form the library GENERATES (ns<k>, k at / just above the size of its
    namespace table) to a foreign namespace, then further foreign namespaces (setAttrNS, Element(qname=...), another load) until the
    generated numbers have passed k"""
    n0 = len(translate_ns.initial_nsdict()[0])      # size of the library's table in a fresh interpreter: where generated numbers start
    rng = chk.rng
    hists = []
    uid = [0]
    def foreign():
        uid[0] += 1; return u'urn:example:tool:%d' % uid[0]
    def touches(n, kinds):
        return [[kinds[j % len(kinds)], foreign()] for j in range(n)]
    for off in range(0, 9):                          # one load, k = n0 + off, then off + 3 further namespaces
        hists.append({'bindings': [[[u'ns%d' % (n0 + off), foreign()]]],
                      'steps': ['L0'] + touches(off + 3, [['touch_attr'], ['touch_elem'], ['touch_attr', 'touch_elem']][off % 3])})
    for i in range(4 if chk.tier == 'quick' else 40):
        # several loads, several generated-form prefixes per package, touches before / between / after, trees alive across it all
        nl = rng.choice([1, 2, 2, 3]); bindings = []; steps = touches(rng.choice([0, 0, 1, 3]), ['touch_elem', 'touch_attr'])
        for l in range(nl):
            b = [[u'ns%d' % (n0 + rng.randint(0, 14)), foreign()] for _ in range(rng.choice([1, 1, 2, 3]))]
            if rng.random() < 0.3:
                b.append([rng.choice([u'loext', u'calcext', u'ns0', u'ns7', u'x']), foreign()])
            seen = set(); b = [x for x in b if not (x[0] in seen or seen.add(x[0]))]     # one binding per prefix in one root tag
            bindings.append(b); steps.append('L%d' % l)
            steps += touches(rng.randint(0, 8), ['touch_attr', 'touch_elem'])
        steps += touches(rng.randint(4, 16), ['touch_attr', 'touch_elem'])
        hists.append({'bindings': bindings, 'steps': steps,
                      'early': [X.rand_tree(rng, depth=2, allow_bad=False, namespaces=X.NAMESPACES[:6] + [u'']) for _ in range(rng.choice([0, 1, 2]))]})
    return hists


def generated_prefix_one(chk, h, drv=None):
    steps = []
    def ns_order(t):                                # namespaces in the order X.build registers them: element, its attributes, its children
        if t[0] != 'E':
            return []
        return [t[1]] + [a[0] for a in t[3]] + [n for k in t[4] for n in ns_order(k)]
    order = [n for t in h.get('early', []) for n in ns_order(t) if n != u'']    # namespaces in the order the process meets them
    for st in h['steps']:
        if isinstance(st, str):
            b = h['bindings'][int(st[1:])]
            steps.append(['load', foreign_prefix_package(b)]); order += [n for p, n in b]
        else:
            steps.append(st); order.append(st[1])
    out = run_child_hist({'early': h.get('early', []), 'steps': steps})
    chk.case(('genprefix-history', json.dumps(h, sort_keys=True))); chk.count('generated_prefix_histories')
    if 'error' in out or out.get('errors'):
        chk.fail('history-with-load-raises', {'generated_prefix_history': h}, (out.get('error') or '; '.join(out['errors']))[-400:]); return
    if drv is not None:
        # the model hands out 'ns' + size of the table, whatever the source document calls the namespace
        ans = drv.ask('nsrun ' + ' '.join(enc_str(x) for x in order))
        real = dict((n, p) for n, p in out['table'])
        model = ans[3:].split(' | ')[0].split() if ans.startswith('ok ') else None
        impl = [real.get(n) for n in order]
        chk.corr(); chk.count('generated_prefix_nsrun')
        if model is None or [dec_str(m) for m in model] != impl:
            chk.corr_diff({'generated_prefix_history': h}, repr(impl), ans[:300], 'prefixes of the foreign namespaces after a history with load()')
    for label, text in out['streams']:
        chk.count('generated_prefix_streams')
        ok, res = wellformed(text)
        if not ok:
            chk.fail('not-wellformed-after-load-history:' + label.split('.', 1)[1].split(':')[0], {'generated_prefix_history': h, 'rendering': label},
                     '%s: %s' % (res, text[:200]))
            break
    table_oracle(chk, out['table'], {'generated_prefix_history': h})


def generated_prefix_histories_check(chk, drv=None):
    """C01 "obtained by loading a package ... whatever the process has serialised before": after such a history EVERY stream (all
    renderings of the loaded documents and of a new document, trees alive across the history) must be well-formed"""
    for h in generated_prefix_histories(chk):
        generated_prefix_one(chk, h, drv)


def extreme_trees_check(chk, drv, want_identity):
    """size and shape extremes that are still legal: nesting depth in the hundreds (the writer is recursive), thousands of
    siblings, strings of > 64 KiB as text / CDATA / attribute value, hundreds of attributes.  Writer vs model byte for byte,
    expat oracle, identity of the parsed tree (C02)."""
    T = u'urn:oasis:names:tc:opendocument:xmlns:text:1.0'; F = u'urn:example:foreign'
    def chain(depth, leaf):
        t = leaf
        for i in range(depth):
            t = ('E', T if i % 3 else F, u'span', [(F, u'custom', u'd%d' % i)] if i % 50 == 0 else [], [('T', u'<') , t, ('T', u'&')] if i % 97 == 0 else [t])
        return t
    big = (u'ab<&>"\'\t\n\r]]>\u00e9\U0001F600 ' * 6000)      # ~ 100 000 characters
    trees = [
        ('deep-150', chain(150, ('T', u'x'))),
        ('deep-400', chain(400, ('C', u']]>'))),
        ('wide-5000', ('E', T, u'p', [], [('E', T, u'span', [], [('T', u'%d' % i)]) if i % 2 else ('T', u'<%d>' % i) for i in range(5000)])),
        ('long-text', ('E', T, u'p', [], [('T', big)])),
        ('long-cdata', ('E', T, u'p', [], [('C', big)])),
        ('long-attr', ('E', T, u'p', [(F, u'custom', big)], [])),
        ('many-attrs', ('E', T, u'p', [(F, u'a%d' % i, u'v"%d' % i) for i in range(300)], [])),
        ('empty-strings', ('E', T, u'p', [(F, u'custom', u'')], [('T', u''), ('C', u''), ('E', F, u'foo', [], [('T', u'')])])),
    ]
    # adjacent high+low surrogates (two code points each, none representable) as text, CDATA and attribute value, within one node
    # and split over adjacent nodes
    for j, (h, l) in enumerate(HI_LO):
        trees.append(('surrogate-pair-%d' % j, ('E', T, u'p', [(F, u'custom', u'v' + h + l), (T, u'style-name', h + l + h + l)],
                                                [('T', u'a' + h + l + u'b'), ('E', T, u'span', [(F, u'lang', l + h + l)], [('C', h + l), ('T', h), ('T', l)]),
                                                 ('C', u']]>' + h + l + u']]>'), ('T', h + l + u'\U0001F600')])))
    lines = []; metas = []
    for name, tr in trees:
        e = X.build(tr)
        w = X.walk(e)
        real = X.to_xml(e)
        tbl = X.ns_table()
        lines.append('render ' + X.wire_table(tbl) + ' ' + X.wire_tree(w))
        metas.append((name, w, real))
    ans = drv.batch(lines)
    for (name, w, real), a_render in zip(metas, ans):
        doc = PROLOGUE + real
        chk.corr(); chk.case(('extreme', name)); chk.count('extreme_trees')
        if a_render != 'ok ' + enc_str(doc):
            m = dec_str(a_render[3:]) if a_render.startswith('ok ') else a_render
            k = next((i for i in range(min(len(m), len(doc))) if m[i] != doc[i]), min(len(m), len(doc)))
            chk.corr_diff({'extreme': name}, doc[max(0, k - 40):k + 80], m[max(0, k - 40):k + 80], 'Element.toXml(0) vs printNode (rawRoot tbl t), first difference at %d' % k)
        ok, res = wellformed(doc)
        if not ok:
            chk.fail('not-wellformed:extreme-tree', {'extreme': name}, '%s' % res); continue
        if want_identity and X.sort_attrs(res) != X.canon(w):
            chk.fail('tree-changed:extreme', {'extreme': name}, str(X.first_diff(X.sort_attrs(res), X.canon(w)))[:300])


# ------------------------------------------------------------------ round 7: bulk oracle over ALL code points, block boundaries, reference look-alikes
import re as _re
_NOT_XML_CHAR = _re.compile(u'[^\t\n\r\x20-\ud7ff\ue000-\ufffd\U00010000-\U0010ffff]')


def repl_illegal_fast(s):
    """X.repl_illegal for long strings: the complement of the XML 1.0 Char production, written down once more from the
    recommendation (cross-checked against X.repl_illegal on every code point in all_codepoints_oracle)"""
    return _NOT_XML_CHAR.sub(u'\ufffd', s)


def _wrap(fs, ctx, s):
    real = fs[ctx](s)
    return real, PROLOGUE + (u'<a b=' + real + u'/>' if ctx == 'attr' else u'<a>' + real + u'</a>')


def _value(ctx, res):
    """the attribute value / the merged character data of the one-element document `res` (expat infoset)"""
    return res[3][0][2] if ctx == 'attr' else u''.join(k[1] for k in res[4])


def one_string_oracle(chk, fs, ctx, s, want_identity, case=None):
    """the property on ONE string in one position, through the real encoder and expat: well-formed (C01) and, with want_identity,
    character-identical except one U+FFFD per character XML 1.0 cannot represent (C02).  Returns None when it holds, else the
    verdict of chk.fail.  The only tolerated class is the known finding (a discouraged code point arriving as U+FFFD)."""
    real, doc = _wrap(fs, ctx, s)
    ok, res = wellformed(doc)
    case = case or {'context': ctx, 's': enc_str(s)}
    if not ok:
        return chk.fail('not-wellformed:' + ctx, case, '%s: %r ... %r (%d characters in, %d out)' % (res, doc[39:99], doc[-60:], len(s), len(real)))
    if want_identity:
        exp = repl_illegal_fast(s); got = _value(ctx, res)
        if got != exp:
            k = next((i for i in range(min(len(got), len(exp))) if got[i] != exp[i]), min(len(got), len(exp)))
            sig = 'discouraged-codepoint' if (any(X.is_discouraged(c) for c in s) and got == hu_like(s)) else 'value-changed:' + ctx
            return chk.fail(sig, case, 'parsed back differently at offset %d of %d: got %r, expected %r' % (k, len(exp), got[max(0, k - 8):k + 8], exp[max(0, k - 8):k + 8]))
    return None


def all_codepoints_oracle(chk, fs, want_identity):
    """ORACLE over the complete finite domain: every one of the 1,114,112 code points through the real writer in the three
    positions (17 strings of 65,536 consecutive code points each, per position) and back through expat.  Expected, from the
    property text alone: the stream is well-formed; every XML 1.0 Char (#x9 | #xA | #xD | [#x20-#xD7FF] | [#xE000-#xFFFD] |
    [#x10000-#x10FFFF]) arrives as itself, everything else as one U+FFFD.  A chunk that disagrees is narrowed to single code
    points, each confirmed on its own (`a<c>b`); the known finding class keeps its signature, nothing else is tolerated."""
    CH = 0x10000
    for ctx in ('text', 'attr', 'cdata'):
        reported = 0
        for lo in range(0, 0x110000, CH):
            s = u''.join(map(chr, range(lo, lo + CH)))
            real, doc = _wrap(fs, ctx, s)
            ok, res = wellformed(doc)
            chk.case(('all-codepoints', ctx, lo)); chk.count('oracle_codepoints_' + ctx, CH)
            exp = X.repl_illegal(s)
            if exp != repl_illegal_fast(s):
                raise common.InfraError('the two transcriptions of the XML Char production disagree in %x..%x' % (lo, lo + CH - 1))
            got = _value(ctx, res) if ok else None
            if ok and (not want_identity or got == exp):
                continue
            if ok and len(got) == len(exp):
                suspects = [i for i in range(CH) if got[i] != exp[i]]
            else:
                suspects = list(range(CH))
            confirmed = 0
            for i in suspects:
                if reported >= 40:
                    break
                one = u'a' + s[i] + u'b'
                v = one_string_oracle(chk, fs, ctx, one, want_identity)
                if v is not None:
                    confirmed += 1
                    if v == 'violation':
                        reported += 1
                    else:
                        chk.count('oracle_codepoints_known_finding_' + ctx)
            if not confirmed and reported < 40:
                # only wrong in the company of its neighbours: a window around the first suspect, else the whole chunk
                i = suspects[0]
                for w in (s[max(0, i - 2):i + 3], s[max(0, i - 16):i + 17], s):
                    if one_string_oracle(chk, fs, ctx, w, want_identity) is not None:
                        reported += 1; break


BOUNDARY_TOKENS = [u']]>', u']]]>', u']>', u'&', u'<', u'>', u'\r', u'\r\n', u'\n', u'\t', u'"', u"'", u'"\'', u' ',
                   u'\ud800', u'\udc00', u'\ud83d\ude00', u'\U0001F600', u'\x00', u'\x01', u'\x0c', u'\ufffe', u'\uffff', u'\ufffd',
                   u'\x85', u'\u2028', u'\xe9', u'\u20ac', u'&amp;', u'&#13;', u'&#x41;', u'<![CDATA[', u'-->', u'?>']


BOUNDARY_TOKENS_THOROUGH_ONLY = [u']>', u'\xa0', u'\udc00', u'\x0c', u'\uffff', u'?>', u'\n', u'>', u'-->', u'\u20ac', u'&#x41;']


def boundary_positions(chk):
    """the block sizes a writer may work in: every power of two from 1 KiB to 128 KiB (thorough: also 192 KiB and 256 KiB)"""
    pos = [1 << k for k in range(10, 18)]
    if chk.tier != 'quick':
        pos += [3 << 16, 1 << 18]
    return pos


def boundary_string(tok, d, positions, fill=u'a'):
    """filler with `tok` starting at B+d for every B in positions, three more characters at the end"""
    out = []; pos = 0
    for B in positions:
        start = B + d
        if start < pos:
            continue
        out.append(fill * (start - pos)); out.append(tok); pos = start + len(tok)
    out.append(u'b' * 3)
    return u''.join(out)


def boundary_cases(chk):
    """(token, offset, string): the token starts at offset d of every block boundary, d from -(len+1) to +1, so that it lies
    before, across (every split) and after the boundary"""
    positions = boundary_positions(chk)
    fills = [u'a'] if chk.tier == 'quick' else [u'a', u'\xe9']
    toks = BOUNDARY_TOKENS if chk.tier != 'quick' else [t for t in BOUNDARY_TOKENS if t not in BOUNDARY_TOKENS_THOROUGH_ONLY]
    for tok in toks:
        for d in range(-len(tok) - 1, 2):
            for fill in fills:
                if len(fill) > 1:
                    n = positions[-1] + 8
                    base = (fill * (n // len(fill) + 1))[:n]
                    s = base
                    for B in reversed(positions):
                        s = s[:B + d] + tok + s[B + d + len(tok):]
                    yield tok, d, fill, s
                else:
                    yield tok, d, fill, boundary_string(tok, d, positions, fill)


def boundary_strings_check(chk, drv, fs, want_identity):
    """LONG strings (text, CDATA, attribute value) in which every token the encoders treat specially - `]]>`, `&`, `<`, CR, quotes,
    surrogates, filtered characters, the encoders' own output tokens - stands AT and AROUND the block boundaries 2^k (1 KiB ..
    128 KiB; every split of the token across the boundary).  An encoder that converts or writes its data a block at a time, or
    that looks at a bounded window, must not treat a token differently because of where it lies.  Oracle: expat accepts the
    stream (C01) and gives back the string (C02).  Correspondence: the model on the same strings (quick: the 8 KiB prefix of
    every case, and every 37th case at full length; thorough: every 11th).  A failing case is reduced to ONE boundary (the shortest failing string)."""
    positions = boundary_positions(chk)
    cases = list(boundary_cases(chk))
    short_pos = [p for p in positions if p <= 8192]
    lines = []; metas = []
    for j, (tok, d, fill, s) in enumerate(cases):
        for ci, ctx in enumerate(('text', 'attr', 'cdata')):
            chk.case(('boundary', ctx, tok, d, fill)); chk.count('boundary_' + ctx)
            real, doc = _wrap(fs, ctx, s)
            ok, res = wellformed(doc)
            bad = (not ok) or (want_identity and _value(ctx, res) != repl_illegal_fast(s))
            if bad:
                # reduce to one boundary: the shortest string of the class that still fails
                for B in positions:
                    s1 = boundary_string(tok, d, [B], fill[:1])
                    if one_string_oracle(chk, fs, ctx, s1, want_identity) is not None:
                        break
                else:
                    one_string_oracle(chk, fs, ctx, s, want_identity)
            # correspondence
            full = (j * 3 + ci) % (37 if chk.tier == 'quick' else 11) == 0
            sm = s if full else s[:short_pos[-1] + 8]
            lines.append('%s %s' % (ctx, enc_str(sm))); metas.append((ctx, tok, d, sm, real if full else None))
    ans = drv.batch(lines)
    for (ctx, tok, d, sm, real), a in zip(metas, ans):
        if real is None:
            real = fs[ctx](sm)
        chk.corr(); chk.count('boundary_model_' + ctx)
        if a != 'ok ' + enc_str(real):
            m = dec_str(a[3:]) if a.startswith('ok ') else a
            k = next((i for i in range(min(len(m), len(real))) if m[i] != real[i]), min(len(m), len(real)))
            chk.corr_diff({'context': ctx, 'token': enc_str(tok), 'offset': d, 'length': len(sm)}, real[max(0, k - 30):k + 30], m[max(0, k - 30):k + 30],
                          'encoder output on a long string with the token at 2^k%+d, first difference at %d' % (d, k))


def boundary_trees_check(chk, drv, want_identity):
    """the same strings inside real elements (text node + CDATA node + attribute value of one element) through Element.toXml, and
    inside a document through xml(), contentxml() and the content.xml of save()"""
    T = u'urn:oasis:names:tc:opendocument:xmlns:text:1.0'; F = u'urn:example:foreign'
    positions = boundary_positions(chk)
    cases = [c for c in boundary_cases(chk) if c[2] == u'a']
    if chk.tier != 'quick':
        cases = [c for i, c in enumerate(cases) if c[1] in (-2, -1) or i % 3 == 0]
    else:
        cases = [c for i, c in enumerate(cases) if (c[0] in (u']]>', u'\r', u'&', u'\ud83d\ude00', u'\x01') and c[1] in (-2, -1)) or i % 11 == 0]
    for tok, d, fill, s in cases:
        tr = ('E', T, u'p', [(F, u'custom', s)], [('T', s), ('E', T, u'span', [], [('C', s)])])
        e = X.build(tr); w = X.walk(e)
        doc = PROLOGUE + X.to_xml(e)
        ok, res = wellformed(doc)
        chk.case(('boundary-tree', tok, d)); chk.count('boundary_trees')
        if ok and (not want_identity or X.sort_attrs(res) == X.canon(w, repl=repl_illegal_fast)):
            continue
        for B in positions:
            s1 = boundary_string(tok, d, [B])
            for small in (('E', T, u'p', [], [('T', s1)]), ('E', T, u'p', [], [('C', s1)]), ('E', T, u'p', [(F, u'custom', s1)], [])):
                e1 = X.build(small); w1 = X.walk(e1)
                ok1, res1 = wellformed(PROLOGUE + X.to_xml(e1))
                if not ok1:
                    chk.fail('not-wellformed:tree', {'tree': small}, '%s (token %r at %d%+d of a string of %d characters)' % (res1, tok, B, d, len(s1))); break
                if want_identity and X.sort_attrs(res1) != X.canon(w1):
                    sig = 'discouraged-codepoint' if (X.has_discouraged(w1) and X.canon(w1, repl=hu_like) == X.sort_attrs(res1)) else 'tree-changed'
                    chk.fail(sig, {'tree': small}, str(X.first_diff(X.sort_attrs(res1), X.canon(w1)))[:300]); break
            else:
                continue
            break
        else:
            if not ok:
                chk.fail('not-wellformed:tree', {'tree': tr}, '%s' % res)
            else:
                chk.fail('tree-changed', {'tree': tr}, str(X.first_diff(X.sort_attrs(res), X.canon(w)))[:300])
    # documents: one per token (the offset that puts the last character of the token behind the boundary)
    docs = [(tok, -len(tok) + 1 if len(tok) > 1 else -1) for tok in BOUNDARY_TOKENS]
    if chk.tier == 'quick':
        docs = docs[::7] + [(u']]>', -2), (u']]>', -1), (u'\r\n', -1), (u'\ud83d\ude00', -1)]
    for tok, d in docs:
        s = boundary_string(tok, d, positions)
        string_document_one(chk, s, want_identity, light=True)


def string_document(s):
    """a text document that holds `s` wherever a caller can put a string: metadata (element text, attribute value), paragraph
    text, span text, CDATA section, attribute of a foreign element, link target"""
    from odf.opendocument import OpenDocumentText
    from odf import text, dc, meta
    from odf.element import Element
    d = OpenDocumentText()
    d.meta.addElement(dc.Title(text=s))
    d.meta.addElement(meta.UserDefined(name=s, text=s))
    p = text.P(text=s)
    p.addElement(text.Span(text=s))
    fe = Element(qname=(u'urn:example:foreign', u'thing'), check_grammar=False)
    fe.setAttrNS(u'urn:example:foreign', u'attr', s)
    p.addElement(fe, check_grammar=False)
    p.addElement(text.A(href=s, text=s))
    p.appendChild(d.createCDATASection(s))
    d.text.addElement(p)
    return d


def string_document_one(chk, s, want_identity, light=False):
    """every rendering of string_document(s) parsed by expat (C01); xml() and the body of content.xml compared with the tree (C02)"""
    case = {'string_document': enc_str(s)}
    chk.case(('string-document', s if len(s) < 100 else (len(s), enc_str(s[:8]), enc_str(s[-40:])))); chk.count('string_documents')
    try:
        d = string_document(s)
    except Exception as e:
        chk.notes.append('string_document: %r' % (e,)); chk.count('string_documents_not_built'); return
    try:
        if light:
            rs = {'xml()': d.xml(), 'contentxml()': d.contentxml(), 'metaxml()': d.metaxml()}
            buf = io.BytesIO(); d.save(buf); z = zipfile.ZipFile(io.BytesIO(buf.getvalue()))
            for n in ('content.xml', 'meta.xml', 'styles.xml'):
                rs['zip:' + n] = z.read(n)
        else:
            rs = renderings(d)
    except UnicodeEncodeError as e:
        chk.fail('not-encodable:document', case, 'rendering raised %r' % (e,)); return
    for name, data in sorted(rs.items()):
        chk.count('string_document_renderings')
        if isinstance(data, str):
            try:
                data = data.encode('utf-8')
            except UnicodeEncodeError as e:
                chk.fail('not-encodable:' + name, dict(case, rendering=name), repr(e)); continue
        try:
            tree = X.expat_parse(data)
        except xml.parsers.expat.ExpatError as e:
            chk.fail('not-wellformed:' + name, dict(case, rendering=name), '%s (string of %d characters ending %r)' % (e, len(s), s[-12:])); continue
        if want_identity and name == 'xml()':
            exp = X.canon(X.walk(d.topnode)); got = X.sort_attrs(tree)
            if got != exp:
                sig = 'discouraged-codepoint' if X.canon(X.walk(d.topnode), repl=hu_like) == got else 'tree-changed:' + name
                chk.fail(sig, dict(case, rendering=name), str(X.first_diff(got, exp))[:300])
        if want_identity and name in ('contentxml()', 'zip:content.xml'):
            body = [k for k in tree[4] if k[2] == 'body']
            exp = X.canon(X.walk(d.body))
            if not body or X.sort_attrs(body[0]) != exp:
                sig = 'discouraged-codepoint' if body and X.canon(X.walk(d.body), repl=hu_like) == X.sort_attrs(body[0]) else 'tree-changed:' + name
                chk.fail(sig, dict(case, rendering=name), str(X.first_diff(X.sort_attrs(body[0]), exp))[:300] if body else 'no body')
        if want_identity and name in ('metaxml()', 'zip:meta.xml'):
            sec = [k for k in tree[4] if k[2] == 'meta']
            exp = X.canon(X.walk(d.meta))
            if not sec or X.sort_attrs(sec[0]) != exp:
                sig = 'discouraged-codepoint' if sec and X.canon(X.walk(d.meta), repl=hu_like) == X.sort_attrs(sec[0]) else 'tree-changed:' + name
                chk.fail(sig, dict(case, rendering=name), str(X.first_diff(X.sort_attrs(sec[0]), exp))[:300] if sec else 'no office:meta')


def decimal_zeros():
    """the digit ZERO of every script Unicode knows (category Nd, value 0), ASCII first"""
    import unicodedata
    return [chr(c) for c in range(0x30, 0x110000) if unicodedata.category(chr(c)) == 'Nd' and unicodedata.decimal(chr(c), None) == 0]


REF_NUMBERS = [0, 1, 9, 10, 13, 32, 38, 60, 65, 128, 159, 8364, 55296, 65534, 65536, 1114111, 1114112, 99999999999]
REF_NAMES = [u'amp', u'lt', u'gt', u'quot', u'apos', u'nbsp', u'euro', u'foo', u'a.b-c_d', u'\xe9', u'\u0661', u':a', u'a:b', u'_', u'#', u'']


def lookalike_strings(chk):
    """strings that LOOK LIKE XML references: `&#<decimal digits of any script>;`, `&#x<hex>;` (also fullwidth / other-script
    digits, upper-case X), `&name;`, and the truncated forms.  None of them is a reference in the tree: the `&` is a character."""
    out = []
    def scr(n, z):
        return u''.join(chr(ord(z) + int(c)) for c in str(n))
    zeros = decimal_zeros()
    for z in zeros:
        refs = [u'&#%s;' % scr(n, z) for n in REF_NUMBERS]
        refs += [u'&#6%s;' % scr(5, z), u'&#%s5;' % scr(6, z), u'&#x%s;' % scr(41, z), u'&#X%s;' % scr(41, z), u'&#%s' % scr(65, z), u'&#x2%sAC;' % scr(0, z)]
        out.extend(refs)
        out.append(u' '.join(refs))
        out.append(u'x' + u''.join(refs) + u'y')
    for z in zeros[:1]:
        out += [u'&#x%x;' % n for n in REF_NUMBERS] + [u'&#X%X;' % n for n in REF_NUMBERS] + [u'&#x0000%x;' % n for n in REF_NUMBERS] + [u'&#000%d;' % n for n in REF_NUMBERS]
    # hexadecimal digits of other alphabets (fullwidth A-F / a-f), characters that are numeric but not decimal digits
    out += [u'&#x\uff14\uff11;', u'&#x\uff21\uff22;', u'&#x\uff41\uff46;', u'&#xA\uff10;', u'&#\xb2;', u'&#\u2460;', u'&#\u2167;', u'&#\u0bf0;', u'&#\u4e94;',
            u'&#+65;', u'&#-65;', u'&# 65;', u'&#65 ;', u'&#6_5;', u'&#0x41;', u'&#x;', u'&#;', u'&#', u'&#x', u'&', u'&;', u'&&amp;;', u'&#38;#38;', u'&amp;#65;', u'&#x26;lt;']
    out += [u'&%s;' % n for n in REF_NAMES] + [u'&%s' % n for n in REF_NAMES] + [u'a&%s;b&%s;' % (n, n) for n in REF_NAMES]
    seen = set(); res = []
    for s in out:
        if s not in seen:
            seen.add(s); res.append(s)
    return res


def reference_lookalikes_check(chk, drv, fs, want_identity):
    """reference look-alikes as text, attribute value and CDATA: model vs code (bytes) and the oracle (expat accepts the stream;
    with want_identity the `&...;` arrives as the characters it is made of, not as what it would denote); then inside documents
    (metadata, text, attribute values, link targets, CDATA) through every rendering"""
    cases = lookalike_strings(chk)
    for ctx in ('text', 'attr', 'cdata'):
        ans = drv.batch('%s %s' % (ctx, enc_str(s)) for s in cases)
        for s, a in zip(cases, ans):
            real = fs[ctx](s)
            chk.corr()
            if a != 'ok ' + enc_str(real):
                chk.corr_diff({'context': ctx, 's': enc_str(s)}, real, dec_str(a[3:]) if a.startswith('ok ') else a, 'encoder output on a reference look-alike')
            chk.case(('lookalike', ctx, s)); chk.count('lookalike_' + ctx)
            one_string_oracle(chk, fs, ctx, s, want_identity)
    zeros = decimal_zeros()
    pick = zeros if chk.tier != 'quick' else [zeros[0]] + chk.rng.sample(zeros[1:], min(9, len(zeros) - 1))
    def scr(n, z):
        return u''.join(chr(ord(z) + int(c)) for c in str(n))
    for z in pick:
        string_document_one(chk, u'&#%s; &#x%s; &#%s;' % (scr(65, z), scr(41, z), scr(8364, z)), want_identity, light=chk.tier == 'quick')
    for s in (u'&nbsp; &amp; &#65; &#x41; &foo', u'&#\uff16\uff15;'):
        string_document_one(chk, s, want_identity)
